"""C04 - EoWriter output read back by EoReader returns the values written.

A job is a sequence of write-op kinds; values are symbolic.  Strings come back as their cp1252 image.
Excluded, as in the property: 0xFF (y-diaeresis) inside padded strings, '~' inside encoded strings.
"""
from eolib.data.eo_writer import EoWriter
from eolib.data.eo_reader import EoReader
from vh_wire import readback, LIMIT

TRAILING = ("string", "encoded_string")


def gen_value(kind, idx, L):
    """symbolic value for one write of the given kind"""
    tag = "%d" % idx
    if kind in ("byte", "char", "short", "three", "int"):
        return sym_int("v" + tag, 0, LIMIT[kind] - 1)
    if kind in ("bytes", "bytearray"):
        return sym_bytes("b" + tag, L)
    s = sym_str("s" + tag, L)
    cps = cps_of(s)
    if "padded" in kind:
        for c in cps:
            assume(cp1252_enc(c) != 0xFF)
    if "encoded" in kind:
        for c in cps:
            assume(cp1252_enc(c) != 0x7E)
    return s


def write(w, kind, v, L, extra):
    if kind == "byte":
        w.add_byte(v)
    elif kind == "char":
        w.add_char(v)
    elif kind == "short":
        w.add_short(v)
    elif kind == "three":
        w.add_three(v)
    elif kind == "int":
        w.add_int(v)
    elif kind == "bytes":
        w.add_bytes(v)
    elif kind == "bytearray":
        # the caller's own mutable buffer: the writer must have copied it, whatever the caller does with it afterwards
        buf = bytearray(v)
        w.add_bytes(buf)
        buf.reverse()
        buf.append(0x41)
        if len(buf) > 1:
            buf[0] = 0
    elif kind == "string":
        w.add_string(v)
    elif kind == "encoded_string":
        w.add_encoded_string(v)
    elif kind == "fixed_string":
        w.add_fixed_string(v, L)
    elif kind == "padded_string":
        w.add_fixed_string(v, L + extra, True)
    elif kind == "fixed_encoded_string":
        w.add_fixed_encoded_string(v, L)
    elif kind == "padded_encoded_string":
        w.add_fixed_encoded_string(v, L + extra, True)


def read_and_check(r, kind, v, L, extra, tag):
    if kind == "byte":
        check(r.get_byte() == v, tag + "byte read back")
    elif kind == "char":
        check(r.get_char() == v, tag + "char read back")
    elif kind == "short":
        check(r.get_short() == v, tag + "short read back")
    elif kind == "three":
        check(r.get_three() == v, tag + "three read back")
    elif kind == "int":
        check(r.get_int() == v, tag + "int read back")
    elif kind in ("bytes", "bytearray"):
        check(r.get_bytes(L) == bytearray(v), tag + "raw bytes read back")
    else:
        if kind == "string":
            got = r.get_string()
        elif kind == "encoded_string":
            got = r.get_encoded_string()
        elif kind == "fixed_string":
            got = r.get_fixed_string(L)
        elif kind == "padded_string":
            got = r.get_fixed_string(L + extra, True)
        elif kind == "fixed_encoded_string":
            got = r.get_fixed_encoded_string(L)
        else:
            got = r.get_fixed_encoded_string(L + extra, True)
        check(len(got) == L, tag + "string length read back")
        check(got == readback(v), tag + "string reads back as its cp1252 image")


def sequence(kinds, L, extra):
    """kinds: tuple of op kinds (trailing kinds only last); L: length of every string/bytes value;
    extra: padding room for padded kinds."""
    w = EoWriter()
    vals = []
    i = 0
    for k in kinds:
        v = gen_value(k, i, L)
        vals.append(v)
        write(w, k, v, L, extra)
        i += 1
    data = w.to_bytearray()
    # the returned bytearray is the caller's: changing it does not reach the writer
    scratch = w.to_bytearray()
    scratch.append(0x42)
    if len(scratch) > 1:
        scratch[0] = (scratch[0] + 1) % 256
    check(w.to_bytearray() == data, "to_bytearray hands out a copy")
    check(len(w) == len(data), "len(writer) equals the number of bytes written")
    r = EoReader(data)
    i = 0
    for k in kinds:
        read_and_check(r, k, vals[i], L, extra, "op%d %s: " % (i, k))
        i += 1
    check(r.remaining == 0, "output consumed exactly")
    check(r.position == len(data), "position at the end")
    observe("data", data)
    # bytes(...) input works like bytearray input
    r2 = EoReader(bytes(data))
    i = 0
    for k in kinds:
        read_and_check(r2, k, vals[i], L, extra, "bytes input op%d %s: " % (i, k))
        i += 1
