"""C06 - chunk framing isolates chunks from over- and under-reads.

Chunks of typed fields are written with sanitisation on and separated by break bytes; a chunked reader
then follows an arbitrary read plan per chunk (any prefix of the chunk's fields, then any number of
surplus reads) before next_chunk.  Whatever the plan for earlier chunks, later chunks read correctly.
"""
from eolib.data.eo_writer import EoWriter
from eolib.data.eo_reader import EoReader
from eolib.data.number_encoding_utils import encode_number
from vh_wire import readback_sanitized, LIMIT, image

FIXLEN = 2


def gen(kind, tag, L):
    if kind in ("char", "short", "three", "int"):
        return sym_int("v" + tag, 0, LIMIT[kind] - 1)
    s = sym_str("s" + tag, FIXLEN if kind in ("fixed_string", "fixed_encoded_string") else L)
    if "encoded" in kind:
        for c in cps_of(s):
            b = cp1252_enc(c)
            assume(b != 0x7E)
    return s


def put(w, kind, v):
    if kind == "char":
        w.add_char(v)
    elif kind == "short":
        w.add_short(v)
    elif kind == "three":
        w.add_three(v)
    elif kind == "int":
        w.add_int(v)
    elif kind == "fixed_string":
        w.add_fixed_string(v, FIXLEN)
    elif kind == "fixed_encoded_string":
        w.add_fixed_encoded_string(v, FIXLEN)
    elif kind == "string":
        w.add_string(v)
    else:
        w.add_encoded_string(v)


def get(r, kind):
    if kind == "char":
        return r.get_char()
    if kind == "short":
        return r.get_short()
    if kind == "three":
        return r.get_three()
    if kind == "int":
        return r.get_int()
    if kind == "fixed_string":
        return r.get_fixed_string(FIXLEN)
    if kind == "fixed_encoded_string":
        return r.get_fixed_encoded_string(FIXLEN)
    if kind == "string":
        return r.get_string()
    return r.get_encoded_string()


def expected(kind, v):
    if kind in ("char", "short", "three", "int"):
        return v
    return readback_sanitized(v)


def empty_of(kind):
    return 0 if kind in ("char", "short", "three", "int") else ""


def chunks(shapes, L, surplus_kinds, via_slice=False, header=False):
    """shapes: tuple of chunks, each a tuple of field kinds.  For every chunk but the last the read plan
    (prefix length p, number of surplus reads s) is symbolic; the last chunk is read in full."""
    w = EoWriter()
    if header:
        # an unsanitised header ahead of the chunked part, as generated serializers write it; its text is free to
        # coincide with a string of the chunks
        hs = sym_str("h", L)
        w.add_char(L)
        w.add_string(hs)
    w.string_sanitization_mode = True
    vals = []
    ci = 0
    for shape in shapes:
        if ci > 0:
            w.add_byte(0xFF)
        row = []
        fi = 0
        for kind in shape:
            v = gen(kind, "%d_%d" % (ci, fi), L)
            put(w, kind, v)
            row.append(v)
            fi += 1
        vals.append(row)
        ci += 1
    data = w.to_bytearray()
    r = EoReader(data)
    if header:
        check(r.get_char() == L, "header length")
        r.get_fixed_string(L)
        r = r.slice()
    r.chunked_reading_mode = True
    ci = 0
    nchunks = len(shapes)
    for shape in shapes:
        last = ci == nchunks - 1
        nf = len(shape)
        p = nf if last else fork(sym_int("p%d" % ci, 0, nf))
        # a trailing (unbounded) string read as part of the prefix consumes the rest of the chunk
        for fi in range(p):
            got = get(r, shape[fi])
            check(got == expected(shape[fi], vals[ci][fi]), "planned read returns what was written")
        s = 0 if last else fork(sym_int("s%d" % ci, 0, len(surplus_kinds)))
        if p == nf:
            for k in range(s):
                got = get(r, surplus_kinds[k])
                check(got == empty_of(surplus_kinds[k]), "surplus read yields zero / empty")
            check(r.remaining == 0, "chunk exhausted after reading all its fields")
        else:
            # under-read: skip the rest of the chunk
            pass
        if not last:
            r.next_chunk()
            if via_slice and ci == 0:
                # the rest of the packet handed on as a slice (what packet handlers do): a reader of its own over the
                # remaining chunks, framed by its own breaks
                r = r.slice()
                r.chunked_reading_mode = True
        ci += 1
    check(r.remaining == 0, "last chunk consumed exactly")
    if not via_slice and not header:
        check(r.position == len(data), "reader at the end of the data")
    observe("data", data)


def lemma_numbers():
    """no in-range EO integer encoding contains the break byte"""
    n = sym_int("n", 0, LIMIT["int"] - 1)
    b = encode_number(n)
    for i in range(4):
        check(b[i] != 0xFF, "encoded integers never contain 0xFF")


def lemma_strings(kind, L):
    """no sanitised string write contains the break byte"""
    s = sym_str("s", L)
    w = EoWriter()
    w.string_sanitization_mode = True
    put(w, kind, s) if kind in ("string", "encoded_string") else None
    if kind == "fixed_string":
        w.add_fixed_string(s, L)
    elif kind == "fixed_encoded_string":
        w.add_fixed_encoded_string(s, L)
    d = w.to_bytearray()
    check(len(d) == L, "one byte per character")
    for i in range(L):
        check(d[i] != 0xFF, "sanitised strings never contain 0xFF")
