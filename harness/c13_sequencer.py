"""C13 - packet sequencer yields start + (n mod 10) under any update history."""
from eolib.packet.packet_sequencer import PacketSequencer
from eolib.packet.sequence_start import SequenceStart, AccountReplySequenceStart, InitSequenceStart, PingSequenceStart


def start_of(v):
    """a start with an arbitrary integer value, through the public API only"""
    return AccountReplySequenceStart.from_value(v)


def constructor():
    s0 = sym_int("s0")
    q = PacketSequencer(start_of(s0))
    check(q.next_sequence() == s0, "first sequence is the start value (n = 0)")


def step():
    """Inductive step from an arbitrary reachable state: after n requests the counter is n mod 10."""
    n = sym_int("n", 0, None)
    s0 = sym_int("s0")
    s1 = sym_int("s1")
    q = PacketSequencer(start_of(s0))
    # drive the real object into 'n requests made' through its own code for the residue, then
    # assert that this equals the invariant state (so no private attribute is assumed)
    r = fork(n % 10)
    for _ in range(r):
        q.next_sequence()
    # n = 10*k + r requests leave the same state as r requests (shown by wrap() below)
    check(q.next_sequence() == s0 + n % 10, "n-th sequence == start + n mod 10")
    q.set_sequence_start(start_of(s1))
    check(q.next_sequence() == s1 + (n + 1) % 10, "update keeps the counter")
    q.set_sequence_start(start_of(s0))
    q.set_sequence_start(start_of(s1))
    check(q.next_sequence() == s1 + (n + 2) % 10, "repeated updates keep the counter")


def wrap():
    """Ten requests return the sequencer to an observationally identical state (period exactly 10)."""
    s0 = sym_int("s0")
    k = sym_int("k", 0, 9)
    a = PacketSequencer(start_of(s0))
    b = PacketSequencer(start_of(s0))
    r = fork(k)
    for _ in range(r):
        a.next_sequence()
        b.next_sequence()
    for _ in range(10):
        b.next_sequence()
    for i in range(12):
        check(a.next_sequence() == b.next_sequence(), "state after r+10 requests == state after r requests")


def history(depth):
    """BMC through the public API only: every op string over {next, set(v)} of the given depth,
    ops chosen by symbolic booleans, start values symbolic."""
    s = sym_int("s0")
    q = PacketSequencer(start_of(s))
    n = 0
    for i in range(depth):
        is_next = sym_bool("op%d" % i)
        v = sym_int("v%d" % i)
        if fork(is_next):
            got = q.next_sequence()
            check(got == s + n % 10, "n-th sequence == start in force + n mod 10")
            n += 1
        else:
            q.set_sequence_start(start_of(v))
            s = v
    check(q.next_sequence() == s + n % 10, "final request")


def start_kinds():
    """Any SequenceStart subclass instance works as a start value."""
    v = sym_int("v", 0, 240)
    a = sym_int("a", 0, 252)
    b = sym_int("b", 0, 252)
    q = PacketSequencer(SequenceStart.zero())
    check(q.next_sequence() == 0, "zero start")
    q.set_sequence_start(AccountReplySequenceStart.from_value(v))
    check(q.next_sequence() == v + 1, "account reply start")
    q.set_sequence_start(InitSequenceStart.from_init_values(a, b))
    check(q.next_sequence() == a * 7 + b - 13 + 2, "init start")
    q.set_sequence_start(PingSequenceStart.from_ping_values(a, b))
    check(q.next_sequence() == a - b + 3, "ping start")


def long_run(n, updates):
    """Lockstep 'indefinitely': n requests on one sequencer (counter widths 8 and 16 bits lie inside n), with a start
    update every `updates` requests (0: none); start values symbolic."""
    set_loop_bound(n + 8)
    s = sym_int("s0")
    pool = [sym_int("v0"), sym_int("v1"), sym_int("v2"), sym_int("v3")]      # start values of the updates, reused in turn
    q = PacketSequencer(start_of(s))
    k = 0
    for i in range(n):
        if updates > 0 and i % updates == updates - 1:
            k += 1
            v = pool[k % 4]
            q.set_sequence_start(start_of(v))
            s = v
        got = q.next_sequence()
        check(got == s + i % 10, "request %d of a long run == start in force + n mod 10" % (i if i < 300 else (i // 1000) * 1000))


def failed_request():
    """a request that raises (a start whose value is not a number yet) returns no sequence number and therefore does
    not count: the numbering continues where it was once a proper start is in force again"""
    s0 = sym_int("s0")
    s1 = sym_int("s1")
    q = PacketSequencer(start_of(s0))
    r = fork(sym_int("r", 0, 12))
    for i in range(r):
        check(q.next_sequence() == s0 + i % 10, "requests before the failure")
    q.set_sequence_start(AccountReplySequenceStart.from_value(None))
    failures = fork(sym_int("failures", 1, 3))
    for _ in range(failures):
        try:
            q.next_sequence()
            raised = False
        except TypeError:
            raised = True
        check(raised, "a start without a numeric value makes the request fail")
    q.set_sequence_start(start_of(s1))
    check(q.next_sequence() == s1 + r % 10, "failed requests do not advance the counter")
    check(q.next_sequence() == s1 + (r + 1) % 10, "numbering continues after the failure")
