from eolib.data.number_encoding_utils import encode_number, decode_number
from eolib.data.string_encoding_utils import encode_string, decode_string
from eolib.data.eo_writer import EoWriter
from eolib.data.eo_reader import EoReader
from eolib.encrypt.encryption_utils import interleave, deinterleave, flip_msb, swap_multiples
from eolib.encrypt.server_verification_utils import server_verification_hash
from eolib.packet.sequence_start import InitSequenceStart, PingSequenceStart
from eolib.packet.packet_sequencer import PacketSequencer

def roundtrip():
    n = sym_int("n", 0, 253 ** 4 - 1)
    b = encode_number(n)
    check(decode_number(b) == n, "roundtrip")
    for i in range(4):
        check(1 <= b[i] <= 254, "wire-safe")

def strcodec(L):
    x = sym_bytes("x", L)
    y = bytearray(x)
    encode_string(y)
    decode_string(y)
    for i in range(L):
        check(x[i] == 0x7E or y[i] == x[i], "inverse")

def wr(L):
    w = EoWriter()
    s = sym_str("s", L)
    n = sym_int("n", 0, 64008)
    w.add_short(n)
    w.add_string(s)
    r = EoReader(w.to_bytearray())
    check(r.get_short() == n, "short")
    t = r.get_string()
    check(len(t) == L, "len")
    check(t == cp1252_dec(cp1252_enc(s)), "string")
    check(r.remaining == 0, "consumed")

def over():
    w = EoWriter()
    n = sym_int("n", 0, None)
    try:
        w.add_char(n)
        ok = True
    except ValueError:
        ok = False
    check(ok == (n < 253), "iff")
    check(len(w) == (1 if ok else 0), "atomic")

def chunk(n):
    d = sym_bytes("d", n)
    r = EoReader(d)
    r.chunked_reading_mode = True
    a = r.get_char()
    s = r.get_string()
    r.next_chunk()
    b = r.get_short()
    check(0 <= r.position <= n, "pos")
    check(r.remaining >= 0, "rem")

def enc(L):
    x = sym_bytes("x", L)
    y = bytearray(x); interleave(y); deinterleave(y)
    check(y == x, "deint(int)")
    f = bytearray(x); flip_msb(f); flip_msb(f)
    check(f == x, "flip involution")
    m = sym_int("m", 1, None)
    z = bytearray(x); forked(swap_multiples, z, m); forked(swap_multiples, z, m)
    check(z == x, "swap involution")

def hash_():
    c = sym_int("c", 0, 253 ** 3 - 1)
    h = server_verification_hash(c)
    d = c + 1
    def trem(a, b):
        r = a % b
        return r - b if (a < 0 and r != 0) else r
    ref = 110905 + (trem(d, 9) + 1) * trem(11092004 - d, (trem(d, 11) + 1) * 119) * 119 + trem(d, 2004)
    check(h == ref, "client arithmetic")

def seq():
    s = InitSequenceStart.generate()
    check(0 <= s.value <= 1757, "value")
    check(0 <= s.seq1 <= 252, "seq1")
    check(0 <= s.seq2 <= 252, "seq2")
    check(InitSequenceStart.from_init_values(s.seq1, s.seq2).value == s.value, "reconstruct")
    p = PingSequenceStart.generate()
    check(0 <= p.seq2 <= 252, "pseq2")
