"""C16 - invalid objects are refused, never silently mis-serialized."""
from eolib.data.eo_writer import EoWriter
from eolib.protocol.serialization_error import SerializationError
from vh_mutate import mut_unit
from vh_refsem import build, ref_serialize, RefInvalid


def refused(types, desc, cfg, max_sites):
    cls = load_class(desc["module"], desc["name"])
    target = fork(sym_int("site", 0, max_sites - 1))
    plan = {"target": target, "seen": 0, "what": None}
    tree = mut_unit(types, desc["instrs"], desc["name"], cfg, desc["entry"], plan)
    assume(plan["what"] is not None)
    obj = build(types, cls, desc["instrs"], tree)
    w = EoWriter()
    w.string_sanitization_mode = desc["entry"]
    returned = True
    try:
        cls.serialize(w, obj)
    except SerializationError:
        returned = False
    except ValueError:
        returned = False
    check(not returned, "an object violating its declaration is refused (SerializationError / ValueError)")
    # the oracle agrees that this object is invalid (guards against a vacuous mutation)
    ref_ok = True
    try:
        ref_serialize(types, desc["instrs"], tree, desc["entry"], desc["entry"])
    except RefInvalid:
        ref_ok = False
    check(not ref_ok, "O-xml also classifies the object as invalid")
    check(w.string_sanitization_mode == desc["entry"], "sanitisation mode restored after the refusal")
    reach("mutated:" + plan["what"].split(" ")[0])
