"""C08 - EO string encoding is length-preserving, self-inverse and break-safe.

O-str: per-position map, independent of _invert_characters' arithmetic:
  bytes outside 0x22..0x7E are fixed; inside they land in 0x21..0x7D; byte order is reversed.
The exact image is the documented reflection: for a byte c in 0x22..0x7E at position i of a string of
length L:  0x9F - c            when i has the parity that is 'not flippy'
           0x9F - c - 0x2E     when flippy and c <  0x50
           0x9F - c + 0x2E     when flippy and c >= 0x50
with flippy(i) = (L odd) xor (i odd).
"""
from eolib.data.string_encoding_utils import encode_string, decode_string


def ostr(c, flippy):
    if c < 0x22 or c > 0x7E:
        return c
    if not flippy:
        return 0x9F - c
    if c < 0x50:
        return 0x9F - c - 0x2E
    return 0x9F - c + 0x2E


def encode_image(L):
    x = sym_bytes("x", L)
    y = bytearray(x)
    encode_string(y)
    check(len(y) == L, "length preserved")
    for i in range(L):
        flippy = ((L % 2) == 1) != ((i % 2) == 1)
        v = y[L - 1 - i]
        check(v == ostr(x[i], flippy), "encode: out[L-1-i] == O-str(in[i])")
        check((x[i] == 0) == (v == 0) and (x[i] == 0xFF) == (v == 0xFF), "encode: 0x00/0xFF neither created nor destroyed")
        check(not (0x22 <= x[i] <= 0x7E) or (0x21 <= v <= 0x7D), "encode: 0x22..0x7E lands in 0x21..0x7D")
        check((0x22 <= x[i] <= 0x7E) or v == x[i], "encode: bytes outside 0x22..0x7E untouched")
    observe("enc", y)


def decode_image(L):
    x = sym_bytes("x", L)
    y = bytearray(x)
    decode_string(y)
    check(len(y) == L, "length preserved")
    for i in range(L):
        # decode reverses first: in[i] ends at position j = L-1-i and is inverted with j's parity
        j = L - 1 - i
        flippy = ((L % 2) == 1) != ((j % 2) == 1)
        v = y[j]
        check(v == ostr(x[i], flippy), "decode: out[L-1-i] == O-str(in[i])")
        check((x[i] == 0) == (v == 0) and (x[i] == 0xFF) == (v == 0xFF), "decode: 0x00/0xFF neither created nor destroyed")
        check(not (0x22 <= x[i] <= 0x7E) or (0x21 <= v <= 0x7D), "decode: 0x22..0x7E lands in 0x21..0x7D")
        check((0x22 <= x[i] <= 0x7E) or v == x[i], "decode: bytes outside 0x22..0x7E untouched")
    observe("dec", y)


def inverse(L):
    x = sym_bytes("x", L)
    y = bytearray(x)
    encode_string(y)
    decode_string(y)
    z = bytearray(x)
    decode_string(z)
    encode_string(z)
    check(len(y) == L and len(z) == L, "length preserved")
    for i in range(L):
        check(x[i] == 0x7E or y[i] == x[i], "decode(encode(x))[i] == x[i] unless 0x7E")
        check(x[i] == 0x7E or z[i] == x[i], "encode(decode(x))[i] == x[i] unless 0x7E")
    observe("dec(enc)", y)


def after_earlier_calls(L0, L):
    """no memory: the image of a string does not depend on the strings encoded / decoded before it"""
    a = bytearray(sym_bytes("a", L0))
    encode_string(a)
    a2 = bytearray(sym_bytes("a2", L0))
    decode_string(a2)
    x = sym_bytes("x", L)
    y = bytearray(x)
    encode_string(y)
    z = bytearray(x)
    decode_string(z)
    check(len(y) == L and len(z) == L, "after earlier calls: length preserved")
    for i in range(L):
        flippy = ((L % 2) == 1) != ((i % 2) == 1)
        check(y[L - 1 - i] == ostr(x[i], flippy), "after earlier calls: encode image")
        j = L - 1 - i
        flippy2 = ((L % 2) == 1) != ((j % 2) == 1)
        check(z[j] == ostr(x[i], flippy2), "after earlier calls: decode image")
