"""C19 - generated protocol objects are immutable snapshots."""
from eolib.data.eo_writer import EoWriter
from eolib.data.eo_reader import EoReader
from eolib.protocol.serialization_error import SerializationError
from vh_gentree import gen_unit, gen_value
from vh_refsem import collect_kwargs, pascal, build_value, same_fields


def no_assign(obj, name, value, tag):
    try:
        setattr(obj, name, value)
        refused = False
    except AttributeError:
        refused = True
    check(refused, tag + ": assignment raises AttributeError")


def frozen(types, instrs, obj, tree, tag):
    """every public field (and byte_size) of obj and of the objects nested in it refuses assignment"""
    no_assign(obj, "byte_size", 5, tag + ".byte_size")
    frozen_fields(types, instrs, obj, tree, tag)


def frozen_fields(types, instrs, obj, tree, tag):
    for ins in instrs:
        k = ins[0]
        if k == "field" and ins[1] is not None:
            cur = getattr(obj, ins[1])
            no_assign(obj, ins[1], cur, tag + "." + ins[1])
            no_assign(obj, ins[1], None, tag + "." + ins[1])
            if ins[2][0] == "struct" and cur is not None:
                frozen(types, types[ins[2][1]][1], cur, tree[ins[1]], tag + "." + ins[1])
        elif k == "array":
            cur = getattr(obj, ins[1])
            no_assign(obj, ins[1], (), tag + "." + ins[1])
            if cur is not None:
                check(isinstance(cur, tuple), tag + "." + ins[1] + ": array field is a tuple")
                if ins[2][0] == "struct":
                    for i in range(len(cur)):
                        frozen(types, types[ins[2][1]][1], cur[i], tree[ins[1]][i], tag + "." + ins[1] + "[]")
        elif k == "chunked":
            frozen_fields(types, ins[1], obj, tree, tag)
        elif k == "switch":
            fld = ins[1]
            cur = getattr(obj, fld + "_data")
            no_assign(obj, fld + "_data", None, tag + "." + fld + "_data")
            want = tree[fld + "_data"]
            if cur is not None and want is not None:
                for c in ins[2]:
                    if c[2] == want["__case__"]:
                        frozen(types, c[3], cur, want, tag + "." + fld + "_data")


ENTRY = {"mode": False}


def ser(cls, obj):
    w = EoWriter()
    w.string_sanitization_mode = ENTRY["mode"]
    cls.serialize(w, obj)
    return w.to_bytearray()


def ser_outcome(cls, obj):
    try:
        return ("bytes", ser(cls, obj))
    except ValueError:
        return ("ValueError", None)
    except SerializationError:
        return ("SerializationError", None)


def grow_lists(types, instrs, kw, tag, cfg):
    """append a fresh valid element to every list the object was built from (also to empty ones)"""
    n = 0
    for ins in instrs:
        if ins[0] == "array":
            v = kw[ins[1]]
            if isinstance(v, list):
                extra = gen_value(types, ins[2], None, False, tag + "." + ins[1] + "#extra", cfg, False, "any", {})
                v.append(build_value(types, ins[2], extra))
                n += 1
        elif ins[0] == "chunked":
            n += grow_lists(types, ins[1], kw, tag, cfg)
    return n


def immutable(types, desc, cfg, reread=True):
    cls = load_class(desc["module"], desc["name"])
    ENTRY["mode"] = desc["entry"]
    tree = gen_unit(types, desc["instrs"], desc["name"], cfg, desc["entry"], "any")
    kw = {}
    collect_kwargs(types, cls, desc["instrs"], tree, kw)
    obj = cls(**kw)
    a = ser(cls, obj)
    check(ser(cls, obj) == a, "serializing the same instance twice yields identical bytes")
    # the caller keeps mutating the iterables it built the object from
    touched = grow_lists(types, desc["instrs"], kw, desc["name"], cfg)
    if touched > 0:
        check(ser(cls, obj) == a, "appending to the caller's list does not change the object")
    for name in list(kw.keys()):
        v = kw[name]
        if isinstance(v, list):
            while len(v) > 0:
                v.pop()
    check(ser(cls, obj) == a, "emptying the caller's list does not change the object")
    # public methods leave the instance as it was (fields and byte_size)
    same_fields(types, desc["instrs"], obj, tree, desc["name"] + " after serialize")
    check(obj.byte_size == 0, "serialize leaves byte_size of a constructed instance at 0")
    if desc["packet"] is not None:
        w9 = EoWriter()
        obj.write(w9)
        check(w9.to_bytearray() == a, "Packet.write emits the same bytes")
        check(obj.byte_size == 0, "Packet.write leaves byte_size unchanged")
        same_fields(types, desc["instrs"], obj, tree, desc["name"] + " after write")
    frozen(types, desc["instrs"], obj, tree, desc["name"])
    check(ser(cls, obj) == a, "failed assignments leave the object unchanged")
    if not reread:
        return
    # deserialized instances behave the same.  A wire-ambiguous layout may re-read its own bytes with an element count
    # decoded from shifted data (up to 253): counts beyond the cap are outside the claim (recorded as an assumption)
    set_range_cap(8)
    rd = EoReader(a)
    rd.chunked_reading_mode = desc["entry"]
    try:
        back = cls.deserialize(rd)
    except ValueError:
        # wire-ambiguous layouts may re-read their own bytes as a negative string length (C03's documented ValueError)
        back = None
    if back is None:
        return
    # a deserialized instance may hold values the wire cannot carry (e.g. 254 decoded from a 0xFF byte of an
    # ambiguous layout): then serialize refuses it - both times alike
    size0 = back.byte_size
    b1 = ser_outcome(cls, back)
    b2 = ser_outcome(cls, back)
    check(back.byte_size == size0, "serialize leaves byte_size of a deserialized instance unchanged")
    if desc["packet"] is not None and b1[0] == "bytes":
        w8 = EoWriter()
        back.write(w8)
        check(back.byte_size == size0, "Packet.write leaves byte_size of a deserialized instance unchanged")
    check(b1[0] == b2[0], "serializing a deserialized instance twice ends the same way")
    if b1[0] == "bytes" and b2[0] == "bytes":
        check(b1[1] == b2[1], "serializing a deserialized instance twice yields identical bytes")
    no_assign(back, "byte_size", 0, desc["name"] + "(deserialized).byte_size")
    # the receive buffer belongs to the caller: overwriting it after the read does not reach the instance
    for i in range(len(a)):
        a[i] = (a[i] + 1) % 256
    b4 = ser_outcome(cls, back)
    check(b4[0] == b1[0], "reusing the receive buffer leaves the instance serializing the same way")
    if b4[0] == "bytes" and b1[0] == "bytes":
        check(b4[1] == b1[1], "reusing the receive buffer leaves the bytes of the instance unchanged")
    # instances are snapshots: reading further objects of the class (from other data) leaves earlier ones as they were
    r2 = EoReader(bytearray())
    r2.chunked_reading_mode = desc["entry"]
    try:
        other = cls.deserialize(r2)
    except ValueError:
        other = None
    check(other is not back, "deserialize returns a fresh instance")
    check(back.byte_size == size0, "a later deserialize leaves byte_size of an earlier instance unchanged")
    b3 = ser_outcome(cls, back)
    check(b3[0] == b1[0], "a later deserialize leaves an earlier instance serializing the same way")
    if b3[0] == "bytes" and b1[0] == "bytes":
        check(b3[1] == b1[1], "a later deserialize leaves the bytes of an earlier instance unchanged")


def array_kinds(types, desc, cfg):
    """array arguments of other iterable kinds (tuple, range, bytes, bytearray) are copied into tuples as well"""
    cls = load_class(desc["module"], desc["name"])
    ENTRY["mode"] = desc["entry"]
    tree = gen_unit(types, desc["instrs"], desc["name"], cfg, desc["entry"], "any")
    kw = {}
    collect_kwargs(types, cls, desc["instrs"], tree, kw)
    names = int_arrays(desc["instrs"])
    assume(len(names) > 0)
    for kind in ("tuple", "range", "bytes", "bytearray"):
        kw2 = {}
        for k in kw.keys():
            kw2[k] = kw[k]
        n_used = 0
        for name in names:
            v = kw[name]
            if isinstance(v, list):
                n = len(v)
                if kind == "tuple":
                    kw2[name] = tuple(range(n))
                elif kind == "range":
                    kw2[name] = range(n)
                elif kind == "bytes":
                    kw2[name] = bytes(range(n))
                else:
                    kw2[name] = bytearray(range(n))
                n_used += 1
        if n_used > 0:
            obj = cls(**kw2)
            for name in names:
                cur = getattr(obj, name)
                if cur is not None:
                    check(isinstance(cur, tuple), desc["name"] + "." + name + ": array built from a " + kind + " is a tuple")
            ref = {}
            for k in kw2.keys():
                ref[k] = list(kw2[k]) if k in names and kw2[k] is not None else kw2[k]
            check(ser_outcome(cls, obj)[1] == ser_outcome(cls, cls(**ref))[1], desc["name"] + ": same bytes as when built from a list (" + kind + ")")


def int_arrays(instrs):
    out = []
    for ins in instrs:
        if ins[0] == "array" and ins[2][0] == "int" and not (ins[3] is not None and ins[3][0] == "const" and ins[3][1] > 3):
            out.append(ins[1])
        elif ins[0] == "chunked":
            out = out + int_arrays(ins[1])
    return out
