"""C11 - server verification hash equals the game client's arithmetic.

O-hash: the published formula evaluated with an explicit truncating (C-style) remainder, written here
from the formula, not derived from the repository's _mod helper.
"""
from eolib.encrypt.server_verification_utils import server_verification_hash

P3 = 253 * 253 * 253
P4 = P3 * 253


def trem(a, b):
    """C remainder for b > 0: sign follows the dividend."""
    r = a % b
    return r - b if (a < 0 and r != 0) else r


def ohash(challenge):
    c = challenge + 1
    return 110905 + (trem(c, 9) + 1) * trem(11092004 - c, (trem(c, 11) + 1) * 119) * 119 + trem(c, 2004)


def client_arithmetic():
    c = sym_int("challenge", 0, P3 - 1)
    h = server_verification_hash(c)
    check(h == ohash(c), "hash equals the client's truncating arithmetic")
    observe("hash", h)


def client_arithmetic_split(r11):
    """Same obligation, case-split on (challenge+1) mod 11 so that the divisor is a constant (linear)."""
    c = sym_int("challenge", 0, P3 - 1)
    assume((c + 1) % 11 == r11)
    h = server_verification_hash(c)
    check(h == ohash(c), "hash equals the client's truncating arithmetic")
    observe("hash", h)


def documented_range():
    c = sym_int("challenge", 0, 11092110)
    h = server_verification_hash(c)
    check(h >= 0, "non-negative up to the documented bound")
    check(h < P4, "fits an EO int up to the documented bound")
    observe("hash", h)


def two_calls():
    """the hash of a challenge does not depend on which challenges were hashed before it in the same process"""
    c1 = sym_int("first", 0, P3 - 1)
    c2 = sym_int("challenge", 0, P3 - 1)
    h1 = server_verification_hash(c1)
    h2 = server_verification_hash(c2)
    check(h2 == ohash(c2), "second hash in a process equals the client's arithmetic")
    observe("hashes", [h1, h2])
