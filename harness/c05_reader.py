"""C05 - EoReader follows the chunked-reading model and never leaves its data.

(a) step(op): the real reader and O-reader are driven into an arbitrary *reachable* state through the
    public API only, by the canonical prefix
        [chunked on] ; k x next_chunk ; [chunked off] ; get_bytes(j) ; set mode m
    (k, j, m, 'ever chunked' symbolic).  Every reachable state (position, mode, chunk start, break cache)
    is produced by such a prefix: the chunk start only moves through next_chunk (k of them), the position
    is arbitrary at or beyond it (non-chunked reads), the mode is free.  Then ONE operation with symbolic
    non-negative arguments is applied to both and results + post-state + a probe of the hidden state are
    compared.  One step from every reachable state = histories of any length (for data up to n bytes).
(b) history(ops): bounded model checking of whole operation sequences from the constructor.
"""
from eolib.data.eo_reader import EoReader
from vh_reader_model import ModelReader

OPS = ("get_byte", "get_bytes", "get_char", "get_short", "get_three", "get_int", "get_string", "get_fixed_string",
       "get_fixed_string_padded", "get_encoded_string", "get_fixed_encoded_string", "get_fixed_encoded_string_padded",
       "mode_on", "mode_off", "next_chunk", "slice", "slice_default", "remaining", "get_bytes_zero")


def same_state(r, m, n, tag):
    check(r.position == m.pos, tag + ": position equals the model's")
    check(0 <= r.position <= n, tag + ": position stays within the data")
    rem = r.remaining
    check(rem == m.remaining(), tag + ": remaining equals the model's")
    check(rem >= 0, tag + ": remaining is never negative")
    check(r.chunked_reading_mode == m.mode, tag + ": mode equals the model's")


def apply_op(op, r, m, n, tag, arg, arg2):
    """Apply one operation to the real reader r and the model m; compare what it returns."""
    if op == "get_byte":
        check(r.get_byte() == m.get_byte(), tag + ": get_byte")
    elif op == "get_bytes":
        a = r.get_bytes(arg)
        b = m.get_bytes(arg)
        check(len(a) == len(b), tag + ": get_bytes length")
        check(a == bytearray(b), tag + ": get_bytes content")
    elif op == "get_bytes_zero":
        a = r.get_bytes(0)
        check(len(a) == 0, tag + ": get_bytes(0) is empty")
    elif op == "get_char":
        check(r.get_char() == m.get_char(), tag + ": get_char")
    elif op == "get_short":
        check(r.get_short() == m.get_short(), tag + ": get_short")
    elif op == "get_three":
        check(r.get_three() == m.get_three(), tag + ": get_three")
    elif op == "get_int":
        check(r.get_int() == m.get_int(), tag + ": get_int")
    elif op == "get_string":
        check(r.get_string() == m.get_string(), tag + ": get_string")
    elif op == "get_fixed_string":
        check(r.get_fixed_string(arg) == m.get_fixed_string(arg), tag + ": get_fixed_string")
    elif op == "get_fixed_string_padded":
        check(r.get_fixed_string(arg, True) == m.get_fixed_string(arg, True), tag + ": get_fixed_string padded")
    elif op == "get_encoded_string":
        check(r.get_encoded_string() == m.get_encoded_string(), tag + ": get_encoded_string")
    elif op == "get_fixed_encoded_string":
        check(r.get_fixed_encoded_string(arg) == m.get_fixed_encoded_string(arg), tag + ": get_fixed_encoded_string")
    elif op == "get_fixed_encoded_string_padded":
        check(r.get_fixed_encoded_string(arg, True) == m.get_fixed_encoded_string(arg, True), tag + ": get_fixed_encoded_string padded")
    elif op == "mode_on":
        r.chunked_reading_mode = True
        m.set_mode(True)
    elif op == "mode_off":
        r.chunked_reading_mode = False
        m.set_mode(False)
    elif op == "next_chunk":
        if m.mode:
            r.next_chunk()
            m.next_chunk()
        else:
            try:
                r.next_chunk()
                raised = False
            except RuntimeError:
                raised = True
            check(raised, tag + ": next_chunk outside chunked mode raises RuntimeError")
    elif op == "remaining":
        check(r.remaining == m.remaining(), tag + ": remaining")
    elif op == "slice" or op == "slice_default":
        p0 = r.position
        mode0 = r.chunked_reading_mode
        rem0 = r.remaining
        if op == "slice":
            s = r.slice(arg, arg2)
            t = m.slice(arg, arg2)
        else:
            s = r.slice()
            t = m.slice()
        check(s.position == 0, tag + ": slice starts at position 0")
        check(not s.chunked_reading_mode, tag + ": slice starts non-chunked")
        check(s.remaining == t.remaining(), tag + ": slice covers exactly the clipped sub-range")
        # operate on the slice: contents equal, parent untouched
        sa = s.get_bytes(s.remaining)
        ta = t.get_bytes(t.remaining())
        check(sa == bytearray(ta), tag + ": slice content")
        s.chunked_reading_mode = True
        check(r.position == p0 and r.chunked_reading_mode == mode0 and r.remaining == rem0, tag + ": parent unaffected by its slice")
        # the slice behaves like a reader over its sub-range in chunked mode too (its own breaks, not the parent's)
        sc = r.slice(arg, arg2) if op == "slice" else r.slice()
        tc = m.slice(arg, arg2) if op == "slice" else m.slice()
        nsub = tc.n
        sc.chunked_reading_mode = True
        tc.set_mode(True)
        same_state(sc, tc, nsub, tag + " slice(chunked)")
        check(sc.get_byte() == tc.get_byte(), tag + ": slice chunked get_byte")
        sc.next_chunk()
        tc.next_chunk()
        same_state(sc, tc, nsub, tag + " slice(next_chunk)")
        check(sc.get_string() == tc.get_string(), tag + ": slice chunked get_string")
        sc.next_chunk()
        tc.next_chunk()
        same_state(sc, tc, nsub, tag + " slice(next_chunk 2)")
        check(r.position == p0 and r.chunked_reading_mode == mode0 and r.remaining == rem0, tag + ": parent unaffected by chunked reads of its slice")
        # slice of a slice
        s2 = r.slice(arg, arg2).slice(arg2, arg) if op == "slice" else r.slice().slice()
        t2 = m.slice(arg, arg2).slice(arg2, arg) if op == "slice" else m.slice().slice()
        check(s2.remaining == t2.remaining(), tag + ": slice of slice range")
        s2.chunked_reading_mode = True
        t2.set_mode(True)
        same_state(s2, t2, t2.n, tag + " slice of slice (chunked)")
        s2.chunked_reading_mode = False
        t2.set_mode(False)
        check(s2.get_bytes(s2.remaining) == bytearray(t2.get_bytes(t2.remaining())), tag + ": slice of slice content")


def probe(r, m, n, tag):
    """Expose the hidden state (chunk start / cached break) through behaviour."""
    r.chunked_reading_mode = True
    m.set_mode(True)
    same_state(r, m, n, tag + " probe(mode on)")
    r.next_chunk()
    m.next_chunk()
    same_state(r, m, n, tag + " probe(next_chunk)")
    check(r.get_byte() == m.get_byte(), tag + " probe: next byte")
    r.chunked_reading_mode = False
    m.set_mode(False)
    same_state(r, m, n, tag + " probe(mode off)")


def container(data, kind):
    """the documented argument kinds of EoReader: bytes, bytearray, memoryview"""
    if kind == "bytearray":
        return bytearray(data)
    if kind == "memoryview":
        return memoryview(bytes(data))
    return data


def step(n, op, blind=False, kind="bytes"):
    """blind: no observation of the reader between the prefix and the operation (observing `remaining` may itself
    repair lazily maintained state, hiding a defect that a caller who does not look would hit)"""
    data = sym_bytes("data", n)
    r = EoReader(container(data, kind))
    m = ModelReader(data)
    if not blind:
        same_state(r, m, n, "constructor")
    ever = sym_bool("ever_chunked")
    if fork(ever):
        r.chunked_reading_mode = True
        m.set_mode(True)
        k = fork(sym_int("k", 0, n + 1))
        for _ in range(k):
            r.next_chunk()
            m.next_chunk()
        r.chunked_reading_mode = False
        m.set_mode(False)
    j = sym_int("j", 0, n)
    if blind:
        assume(j == 0)
    else:
        r.get_bytes(j)
        m.get_bytes(j)
    mode = sym_bool("mode")
    if fork(mode):
        r.chunked_reading_mode = True
        m.set_mode(True)
    if not blind:
        same_state(r, m, n, "pre-state")
    arg = sym_int("arg", 0, n + 2)
    arg2 = sym_int("arg2", 0, n + 2)
    apply_op(op, r, m, n, op, arg, arg2)
    same_state(r, m, n, "post-state")
    probe(r, m, n, "post")


def history(n, ops, blind=False):
    data = sym_bytes("data", n)
    r = EoReader(data)
    m = ModelReader(data)
    i = 0
    for op in ops:
        arg = sym_int("arg%d" % i, 0, n + 2)
        arg2 = sym_int("argb%d" % i, 0, n + 2)
        apply_op(op, r, m, n, "op%d %s" % (i, op), arg, arg2)
        if not blind:
            same_state(r, m, n, "after op%d" % i)
        i += 1
    probe(r, m, n, "end")


def negative_arguments(n):
    """Documented: negative index/length for slice and negative fixed-string lengths raise ValueError."""
    data = sym_bytes("data", n)
    r = EoReader(data)
    neg = sym_int("neg", None, -1)
    for which in range(4):
        try:
            if which == 0:
                r.slice(neg, 1)
            elif which == 1:
                r.slice(0, neg)
            elif which == 2:
                r.get_fixed_string(neg)
            else:
                r.get_fixed_encoded_string(neg, True)
            raised = False
        except ValueError:
            raised = True
        check(raised, "negative argument raises ValueError")
    check(r.position == 0, "failed calls do not move the reader")


def long_chunks(n, lo):
    """Size thresholds: chunks whose end lies far from their start (a scan that works in windows or blocks has
    boundaries there).  All n bytes are symbolic; the first break is assumed at or beyond offset lo so that the
    solver's attention goes to the long-chunk region (shorter first chunks are the step() jobs' business)."""
    data = sym_bytes("data", n)
    for i in range(lo):
        assume(data[i] != 0xFF)
    r = EoReader(data)
    m = ModelReader(data)
    r.chunked_reading_mode = True
    m.set_mode(True)
    same_state(r, m, n, "long: first chunk")
    check(r.get_byte() == m.get_byte(), "long: first byte")
    r.next_chunk()
    m.next_chunk()
    same_state(r, m, n, "long: second chunk")
    check(r.get_byte() == m.get_byte(), "long: byte after the break")
    r.chunked_reading_mode = False
    m.set_mode(False)
    same_state(r, m, n, "long: mode off")
