"""C02 - generated serializers emit exactly the wire format the XML prescribes (O-xml is the reference).
C16 shares the machinery: one declaration-violating change must be refused."""
from eolib.data.eo_writer import EoWriter
from eolib.protocol.serialization_error import SerializationError
from vh_gentree import gen_unit
from vh_refsem import build, ref_serialize, RefInvalid, ARRAYS


def wire(types, desc, cfg):
    cls = load_class(desc["module"], desc["name"])
    tree = gen_unit(types, desc["instrs"], desc["name"], cfg, desc["entry"], "any")
    obj = build(types, cls, desc["instrs"], tree)
    w = EoWriter()
    w.string_sanitization_mode = desc["entry"]
    cls.serialize(w, obj)
    got = w.to_bytearray()
    observe("wire", got)
    exp = ref_serialize(types, desc["instrs"], tree, desc["entry"], desc["entry"])
    check(len(got) == len(exp), "serialized length equals the prescribed length")
    if len(got) == len(exp):
        check(list(got) == exp, "serialized bytes equal the prescribed wire image")
    check(w.string_sanitization_mode == desc["entry"], "sanitisation mode restored")
    if desc["packet"] is not None:
        check(int(cls.family()) == desc["packet"][0], "packet reports its declared family")
        check(int(cls.action()) == desc["packet"][1], "packet reports its declared action")
        w2 = EoWriter()
        obj.write(w2)
        check(w2.to_bytearray() == got, "Packet.write emits the same bytes as serialize")


def wire_iter(types, desc, cfg):
    """the same obligation with every array argument handed to the constructor as a one-shot iterator
    (the documented parameter type is Iterable): the object must have taken its snapshot in one pass"""
    ARRAYS["as"] = "iter"
    try:
        wire(types, desc, cfg)
    finally:
        ARRAYS["as"] = "list"
