"""C15 - (de)serialization leaves reader and writer modes as it found them: whatever the entry mode, however
sections nest, and whether the call returns or raises (validation errors at any instruction, failing
writer / reader at any call)."""
from eolib.data.eo_writer import EoWriter
from eolib.data.eo_reader import EoReader
from eolib.protocol.serialization_error import SerializationError
from vh_mutate import mut_unit
from vh_gentree import gen_unit
from vh_refsem import build
from c02_wire import wire as wire_equals_prescription
from c03_hostile import hostile as reads_as_prescribed


class InjectedFault(Exception):
    pass


class FaultyWriter(EoWriter):
    """fails at its k-th add_* call (k = 0: never)"""

    def __init__(self, k):
        super().__init__()
        self.k = k
        self.calls = 0

    def tick(self):
        self.calls = self.calls + 1
        if self.calls == self.k:
            raise InjectedFault("writer fault")

    def add_byte(self, value):
        self.tick()
        super().add_byte(value)

    def add_bytes(self, bytes):
        self.tick()
        super().add_bytes(bytes)

    def add_char(self, number):
        self.tick()
        super().add_char(number)

    def add_short(self, number):
        self.tick()
        super().add_short(number)

    def add_three(self, number):
        self.tick()
        super().add_three(number)

    def add_int(self, number):
        self.tick()
        super().add_int(number)

    def add_string(self, string):
        self.tick()
        super().add_string(string)

    def add_fixed_string(self, string, length, padded=False):
        self.tick()
        super().add_fixed_string(string, length, padded)

    def add_encoded_string(self, string):
        self.tick()
        super().add_encoded_string(string)

    def add_fixed_encoded_string(self, string, length, padded=False):
        self.tick()
        super().add_fixed_encoded_string(string, length, padded)


class FaultyReader(EoReader):
    """fails at its k-th get_* / next_chunk call (k = 0: never)"""

    def __init__(self, data, k):
        super().__init__(data)
        self.k = k
        self.calls = 0

    def tick(self):
        self.calls = self.calls + 1
        if self.calls == self.k:
            raise InjectedFault("reader fault")

    def get_byte(self):
        self.tick()
        return super().get_byte()

    def get_bytes(self, length):
        self.tick()
        return super().get_bytes(length)

    def get_char(self):
        self.tick()
        return super().get_char()

    def get_short(self):
        self.tick()
        return super().get_short()

    def get_three(self):
        self.tick()
        return super().get_three()

    def get_int(self):
        self.tick()
        return super().get_int()

    def get_string(self):
        self.tick()
        return super().get_string()

    def get_fixed_string(self, length, padded=False):
        self.tick()
        return super().get_fixed_string(length, padded)

    def get_encoded_string(self):
        self.tick()
        return super().get_encoded_string()

    def get_fixed_encoded_string(self, length, padded=False):
        self.tick()
        return super().get_fixed_encoded_string(length, padded)

    def next_chunk(self):
        self.tick()
        super().next_chunk()


def serialize_modes(types, desc, cfg, max_sites, kmax):
    """valid and invalid objects, entry mode symbolic, writer failing at its k-th call"""
    cls = load_class(desc["module"], desc["name"])
    target = fork(sym_int("site", -1, max_sites - 1))       # -1: no violation
    plan = {"target": target, "seen": 0, "what": None}
    tree = mut_unit(types, desc["instrs"], desc["name"], cfg, desc["entry"], plan)
    assume(target == -1 or plan["what"] is not None)
    obj = build(types, cls, desc["instrs"], tree)
    k = fork(sym_int("k", 0, kmax))
    w = FaultyWriter(k)
    entry = sym_bool("entry")
    if desc["entry"]:
        assume(entry)
    w.string_sanitization_mode = entry
    outcome = "returned"
    try:
        cls.serialize(w, obj)
    except SerializationError:
        outcome = "SerializationError"
    except ValueError:
        outcome = "ValueError"
    except InjectedFault:
        outcome = "fault"
    check(w.string_sanitization_mode == entry, "writer sanitisation mode is what it was on entry")
    reach("serialize " + outcome)


def deserialize_modes(types, desc, n, kmax, cap):
    """arbitrary bytes, entry mode symbolic, reader failing at its k-th call"""
    set_range_cap(cap)
    cls = load_class(desc["module"], desc["name"])
    data = sym_bytes("data", n)
    k = fork(sym_int("k", 0, kmax))
    r = FaultyReader(data, k)
    entry = fork(sym_bool("entry"))
    if desc["entry"]:
        assume(entry)
    r.chunked_reading_mode = entry
    outcome = "returned"
    try:
        cls.deserialize(r)
    except ValueError:
        outcome = "ValueError"
    except InjectedFault:
        outcome = "fault"
    check(r.chunked_reading_mode == entry, "reader chunked mode is what it was on entry")
    reach("deserialize " + outcome)


def nested_not_chunked(types, desc, cfg):
    """A struct nested in a non-chunked parent is serialized with the parent's (entry) sanitisation for its
    non-chunked parts: observable because y-diaeresis survives outside chunked sections only."""
    cls = load_class(desc["module"], desc["name"])
    tree = gen_unit(types, desc["instrs"], desc["name"], cfg, desc["entry"], "any")
    obj = build(types, cls, desc["instrs"], tree)
    w = EoWriter()
    w.string_sanitization_mode = desc["entry"]
    cls.serialize(w, obj)
    first = w.to_bytearray()
    # serializing again after the call behaves identically: no mode leaked into the writer
    cls.serialize(w, obj)
    both = w.to_bytearray()
    check(len(both) == 2 * len(first), "second serialization has the same length")
    check(both[len(first):] == first, "second serialization equals the first (no mode leaked)")


def nested_sanitised(types, desc, cfg):
    """the 'consequently' clause, write side: a class that nests structures emits exactly the prescribed image, i.e.
    nested structures are sanitised iff they are (lexically or by nesting) inside a chunked section"""
    wire_equals_prescription(types, desc, cfg)


def nested_read(types, desc, n, cap):
    """the 'consequently' clause, read side: nested structures are read chunked iff inside a chunked section"""
    reads_as_prescribed(types, desc, n, desc["entry"], cap)
