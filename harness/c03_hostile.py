"""C03 - generated deserializers obey the spec on truncated or hostile bytes.

Input: every byte string of length n (symbolic).  The real generated deserializer (over the real EoReader) is
compared with O-xml's ref_deserialize (over the O-reader model).  The only exception allowed to escape is the
documented ValueError for a negative fixed-string length, and only where the reference predicts it.
"""
from eolib.data.eo_reader import EoReader
from vh_refsem import ref_deserialize, same_obj


def hostile(types, desc, n, entry_chunked, cap):
    set_range_cap(cap)
    set_loop_bound(n + cap + 8)      # every loop of a deserializer consumes input or counts up to a decoded (capped) count
    cls = load_class(desc["module"], desc["name"])
    data = sym_bytes("data", n)
    r = EoReader(data)
    if entry_chunked:
        r.chunked_reading_mode = True
    obj = None
    raised = False
    try:
        obj = cls.deserialize(r)
    except ValueError:
        raised = True
    ref_raised = False
    tree = None
    mr = None
    try:
        tree, mr = ref_deserialize(types, desc["instrs"], data, entry_chunked, desc["entry"])
    except ValueError:
        ref_raised = True
    check(raised == ref_raised, "ValueError exactly where the reading rules predict a negative string length")
    check(r.chunked_reading_mode == entry_chunked, "reader mode restored")
    check(0 <= r.position <= n, "position stays within the supplied bytes")
    if not raised and not ref_raised:
        same_obj(types, desc["instrs"], obj, tree, desc["name"])
        check(r.position == mr.pos, "consumed exactly what the reading rules consume")
        check(obj.byte_size == r.position, "byte_size equals the bytes consumed")
    observe("pos", r.position)
