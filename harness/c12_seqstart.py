"""C12 - generated sequence starts are always transmittable and reconstructible.

Every random.randrange draw is a solver variable constrained only by randrange's contract
(a <= r < b, ValueError on an empty range), so the obligations hold for every outcome of every draw.
"""
from eolib.packet.sequence_start import (InitSequenceStart, PingSequenceStart, AccountReplySequenceStart, SequenceStart)


def init_start():
    s = InitSequenceStart.generate()
    check(0 <= s.value <= 1757, "INIT value in 0..1757")
    check(0 <= s.seq1 <= 252, "INIT seq1 fits a byte-sized EO value (0..252)")
    check(0 <= s.seq2 <= 252, "INIT seq2 fits a byte-sized EO value (0..252)")
    t = InitSequenceStart.from_init_values(s.seq1, s.seq2)
    check(t.value == s.value, "INIT from_init_values reproduces the value")
    check(t.seq1 == s.seq1 and t.seq2 == s.seq2, "INIT components kept")
    observe("init", (s.value, s.seq1, s.seq2))


def ping_start():
    s = PingSequenceStart.generate()
    check(0 <= s.value <= 1757, "PING value in 0..1757")
    check(0 <= s.seq1 < 253 * 253, "PING seq1 fits a short")
    check(0 <= s.seq2 <= 252, "PING seq2 fits a char")
    t = PingSequenceStart.from_ping_values(s.seq1, s.seq2)
    check(t.value == s.value, "PING from_ping_values reproduces the value")
    observe("ping", (s.value, s.seq1, s.seq2))


def account_reply_start():
    s = AccountReplySequenceStart.generate()
    check(0 <= s.value <= 240, "ACCOUNT_REPLY value in 0..240")
    check(0 <= s.value <= 252, "ACCOUNT_REPLY value fits a char")
    t = AccountReplySequenceStart.from_value(s.value)
    check(t.value == s.value, "ACCOUNT_REPLY from_value reproduces the value")
    observe("acc", s.value)


def zero_start():
    z = SequenceStart.zero()
    check(z.value == 0, "zero start")


def from_values_total():
    """from_* constructors are total on every transmittable component pair."""
    a = sym_int("a", 0, 252)
    b = sym_int("b", 0, 252)
    t = InitSequenceStart.from_init_values(a, b)
    check(t.value == a * 7 + b - 13, "INIT value formula")
    c = sym_int("c", 0, 253 * 253 - 1)
    p = PingSequenceStart.from_ping_values(c, b)
    check(p.value == c - b, "PING value formula")


def second_generation():
    """no memory: the obligations hold for a start generated after other starts were generated in the process"""
    InitSequenceStart.generate()
    PingSequenceStart.generate()
    AccountReplySequenceStart.generate()
    s = InitSequenceStart.generate()
    check(0 <= s.seq1 <= 252 and 0 <= s.seq2 <= 252, "second INIT components fit a byte-sized EO value")
    t = InitSequenceStart.from_init_values(s.seq1, s.seq2)
    check(t.value == s.value, "second INIT from_init_values reproduces the value")
    p = PingSequenceStart.generate()
    check(0 <= p.seq1 < 253 * 253 and 0 <= p.seq2 <= 252, "second PING components fit")
    check(PingSequenceStart.from_ping_values(p.seq1, p.seq2).value == p.value, "second PING from_ping_values reproduces the value")
