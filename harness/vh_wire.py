"""Reference images of EO wire values, written from the protocol documentation (not from the repo code).

 enc_num(v, k)   : the k-byte EO integer: digit i = (v div 253^i) mod 253 + 1, but 0xFE for i > 0 when v < 253^i
 image(s, san)   : windows-1252 bytes of s ('?' for unencodable), y-diaeresis (0xFF) -> 'y' (0x79) when sanitising
 padded(b, n)    : b followed by 0xFF up to n bytes
"""
from vh_reader_model import ostr_encode, ostr_decode

P = (1, 253, 253 * 253, 253 * 253 * 253, 253 * 253 * 253 * 253)
LIMIT = {"byte": 256, "char": 253, "short": 253 * 253, "three": 253 * 253 * 253, "int": 253 * 253 * 253 * 253}
WIDTH = {"byte": 1, "char": 1, "short": 2, "three": 3, "int": 4}


def enc_num(v, k):
    out = []
    for i in range(k):
        digit = (v // P[i]) % 253 + 1
        if i == 0:
            out.append(digit)
        else:
            out.append(digit if v >= P[i] else 0xFE)
    return out


def image(s, sanitize):
    out = []
    for c in cps_of(s):
        b = cp1252_enc(c)
        if sanitize:
            b = 0x79 if b == 0xFF else b
        out.append(b)
    return out


def padded(b, n):
    return list(b) + [0xFF] * (n - len(b))


def readback(s):
    """what a reader returns for a string written without sanitisation"""
    return str_of([cp1252_dec(cp1252_enc(c)) for c in cps_of(s)])


def readback_sanitized(s):
    out = []
    for c in cps_of(s):
        b = cp1252_enc(c)
        b = 0x79 if b == 0xFF else b
        out.append(cp1252_dec(b))
    return str_of(out)
