"""C07 - EO number codec is a wire-safe bijection on its whole range.

Everything here ranges over the *entire* documented domain (all 253^4 integers) as solver variables;
byte strings are symbolic per length.  O-num is the documented positional formula, written
independently of decode_number.
"""
from eolib.data.number_encoding_utils import encode_number, decode_number
from eolib.data.eo_numeric_limits import CHAR_MAX, SHORT_MAX, THREE_MAX, INT_MAX

P1 = 253
P2 = 253 * 253
P3 = 253 * 253 * 253
P4 = 253 * 253 * 253 * 253


def limits():
    check(CHAR_MAX == P1, "CHAR_MAX")
    check(SHORT_MAX == P2, "SHORT_MAX")
    check(THREE_MAX == P3, "THREE_MAX")
    check(INT_MAX == P4, "INT_MAX")


def roundtrip():
    n = sym_int("n", 0, P4 - 1)
    b = encode_number(n)
    check(len(b) == 4, "four bytes")
    for i in range(4):
        check(1 <= b[i] <= 254, "no 0x00/0xFF byte")
    check(decode_number(b) == n, "decode(encode(n)) == n")
    observe("enc", b)


def prefix(k):
    """n < 253^k: the first k bytes alone decode to n and the rest is 0xFE filler."""
    n = sym_int("n", 0, P1 ** k - 1)
    b = encode_number(n)
    check(decode_number(b[:k]) == n, "prefix decodes to n")
    for i in range(k, 4):
        check(b[i] == 0xFE, "filler")
    for i in range(k):
        check(b[i] != 0xFE or i > 0, "first digit present")
    observe("enc", b)


def injective():
    n = sym_int("n", 0, P4 - 1)
    m = sym_int("m", 0, P4 - 1)
    assume(n != m)
    a = encode_number(n)
    b = encode_number(m)
    check(a != b, "distinct numbers have distinct encodings")


def onum(b, n):
    """O-num: sum of (byte-1)*253^i up to the first 0xFE, at most four bytes."""
    total = 0
    live = True
    w = 1
    for i in range(min(n, 4)):
        live = live and b[i] != 0xFE
        total = total + ((b[i] - 1) * w if live else 0)
        w = w * 253
    return total


def decode_formula(n):
    b = sym_bytes("b", n)
    r = decode_number(b)
    check(r == onum(b, n), "decode equals the positional formula")
    observe("dec", r)


def decode_ignores_tail(n):
    """bytes past the fourth are never read: two strings that agree on the first four decode alike."""
    a = sym_bytes("a", n)
    b = sym_bytes("b", n)
    for i in range(4):
        assume(a[i] == b[i])
    check(decode_number(a) == decode_number(b), "tail ignored")


def decode_accepts_mutable(n):
    b = bytearray(sym_bytes("b", n))
    r = decode_number(b)
    check(r == onum(b, n), "bytearray input")


def after_earlier_calls(n, n0=None):
    """the codec has no memory: results do not depend on what was encoded / decoded earlier in the process
    (the earlier input may be shorter or longer than the later one)"""
    m0 = sym_int("m0", 0, P4 - 1)
    b0 = sym_bytes("b0", n if n0 is None else n0)
    encode_number(m0)
    decode_number(b0)
    # ... including calls that failed: far beyond the range (ValueError), negative
    bad = sym_int("bad", P4, None)
    try:
        encode_number(bad)
    except ValueError:
        pass
    m = sym_int("n", 0, P4 - 1)
    b = encode_number(m)
    check(decode_number(b) == m, "after earlier calls: decode(encode(n)) == n")
    for i in range(4):
        check(1 <= b[i] <= 254, "after earlier calls: no 0x00/0xFF byte")
    x = sym_bytes("b", n)
    check(decode_number(x) == onum(x, n), "after earlier calls: decode equals the positional formula")
