"""Symbolic value trees for corpus classes: structure (lengths, counts, optional presence, case selection) is
value-forked, leaves are solver variables.

mode "roundtrip": the documented validity predicate of C01 (cp1252-encodable strings; no y-diaeresis where
                  sanitised or padded; no '~' in encoded strings; present optionals serialize to >= 1 byte;
                  elements of unbounded delimited arrays start with a non-empty first chunk)
mode "any":       every value the constructors accept that satisfies the declaration (any code point, any ordinal)
"""
from vh_refsem import LIMIT, length_limit, scope_of, ref_serialize, hard_value


def pick(name, options):
    if len(options) == 1:
        return options[0]
    i = fork(sym_int(name, 0, len(options) - 1))
    return options[i]


def gen_text(tag, L, kind, is_padded, san, mode):
    s = sym_str(tag, L)
    if mode == "roundtrip":
        for c in cps_of(s):
            assume(cp1252_ok(c))
            b = cp1252_enc(c)
            if san or is_padded:
                assume(b != 0xFF)
            if kind == "encoded_string":
                assume(b != 0x7E)
    return s


def options_upto(opts, limit, must=None):
    out = []
    for x in opts:
        if x <= limit and x not in out:
            out.append(x)
    if must is not None and must not in out:
        out.append(must)
    if len(out) == 0:
        out.append(0)
    return tuple(out)


def gen_value(types, t, length, is_padded, tag, cfg, san, mode, scope):
    k = t[0]
    if k == "int":
        return sym_int(tag, 0, LIMIT[t[1]] - 1)
    if k == "bool":
        return sym_bool(tag)
    if k == "enum":
        return sym_int(tag, 0, LIMIT[t[2]] - 1)
    if k == "blob":
        return sym_bytes(tag, pick(tag + "#len", cfg["lens"]))
    if k == "struct":
        return gen_unit(types, types[t[1]][1], tag, cfg, san, mode)
    if length is None:
        L = pick(tag + "#len", cfg["lens"])
    elif length[0] == "const":
        L = length[1] if not is_padded else pick(tag + "#len", options_upto(cfg["lens"], length[1], length[1]))
    else:
        L = pick(tag + "#len", options_upto(cfg["lens"], length_limit(scope, length[1])))
    return gen_text(tag, L, t[1], is_padded, san, mode)


def gen_unit(types, instrs, tag, cfg, san, mode, st=None):
    """st: optional-presence state shared with the enclosing unit (a switch case continues its parent's chain of
    optional fields: once one is absent, every later one - inside the case and after the switch - is absent too)"""
    tree = {}
    if st is None:
        st = {"present": True}
    gen_instrs(types, instrs, tree, tag, cfg, san, mode, st, scope_of(instrs, {}))
    return tree


def value_len(v):
    return len(v)


def gen_instrs(types, instrs, tree, tag, cfg, san, mode, st, scope):
    for ins in instrs:
        k = ins[0]
        if k == "field":
            name = ins[1]
            if name is None:
                continue
            if ins[6] is not None:
                tree[name] = hard_value(ins[2], ins[6])
                continue
            if ins[5]:
                st["present"] = st["present"] and pick(tag + "." + name + "#present", (True, False))
                if not st["present"]:
                    tree[name] = None
                    continue
            v = gen_value(types, ins[2], ins[3], ins[4], tag + "." + name, cfg, san, mode, scope)
            if ins[5] and mode == "roundtrip" and ins[2][0] in ("str", "blob") and len(v) == 0:
                # an empty present optional is indistinguishable from an absent one on the wire
                st["present"] = False
                v = None
            tree[name] = v
            if v is not None and ins[3] is not None and ins[3][0] == "ref":
                tree[ins[3][1]] = len(v)
        elif k == "length":
            if ins[1] not in tree:
                tree[ins[1]] = None       # filled in by the referencing field / array
        elif k == "array":
            name = ins[1]
            if ins[4]:
                st["present"] = st["present"] and pick(tag + "." + name + "#present", (True, False))
                if not st["present"]:
                    tree[name] = None
                    continue
            if ins[3] is None:
                n = pick(tag + "." + name + "#count", cfg["counts"])
            elif ins[3][0] == "const":
                n = ins[3][1]
            else:
                n = pick(tag + "." + name + "#count", options_upto(cfg["counts"], length_limit(scope, ins[3][1])))
            items = []
            for i in range(n):
                v = gen_value(types, ins[2], None, False, tag + "." + name + "[%d]" % i, cfg, san, mode, scope)
                if mode == "roundtrip" and ins[3] is None and ins[5]:
                    img = element_image(types, ins[2], v, san)
                    assume(len(img) > 0)
                    if len(img) > 0:
                        assume(img[0] != 0xFF)
                items.append(v)
            if ins[4] and mode == "roundtrip" and n == 0:
                st["present"] = False
                tree[name] = None
                continue
            tree[name] = items
            if ins[3] is not None and ins[3][0] == "ref":
                tree[ins[3][1]] = n
        elif k == "chunked":
            gen_instrs(types, ins[1], tree, tag, cfg, True, mode, st, scope)
        elif k == "break":
            st["present"] = True
        elif k == "switch":
            fld = ins[1]
            cases = ins[2]
            has_default = False
            for c in cases:
                if c[0] == "default":
                    has_default = True
            nopts = len(cases) + (0 if has_default else 1)
            which = fork(sym_int(tag + "." + fld + "#case", 0, nopts - 1))
            val = tree[fld]
            chosen = None
            if which < len(cases) and cases[which][0] == "value":
                chosen = cases[which]
                assume(val == chosen[1])
            else:
                for c in cases:
                    if c[0] == "value":
                        assume(val != c[1])
                if which < len(cases):
                    chosen = cases[which]
            if chosen is None or len(chosen[3]) == 0:
                tree[fld + "_data"] = None
            else:
                data = gen_unit(types, chosen[3], tag + "." + fld + "_data", cfg, san, mode, st)
                data["__case__"] = chosen[2]
                tree[fld + "_data"] = data


def element_image(types, t, v, san):
    from vh_refsem import put_value
    out = []
    put_value(types, out, t, v, None, False, san, {})
    return out
