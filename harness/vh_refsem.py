"""O-xml, harness side: reference semantics of eo-protocol specifications over (possibly symbolic) values.

Interprets the schema tuples produced by props/oxml.py.  Shares no code with the repository's generator
or its EoReader/EoWriter: bytes are produced from vh_wire's reference images, reading goes through the
O-reader model (vh_reader_model.ModelReader).

A *unit* is one generated class body (struct, packet or case-data class): it has its own dummy baseline and
saves/restores the mode it was entered with.

Value trees are dicts: field name -> int | bool | text | bytes | list | dict (struct) | None (absent optional);
case data lives under "<field>_data" as None or a dict carrying "__case__" (class-name suffix).
"""
from vh_reader_model import ModelReader, ostr_encode
from vh_wire import enc_num, image, padded

LIMIT = {"byte": 256, "char": 253, "short": 253 * 253, "three": 253 * 253 * 253, "int": 253 * 253 * 253 * 253}
WIDTH = {"byte": 1, "char": 1, "short": 2, "three": 3, "int": 4}


class RefInvalid(Exception):
    """the object violates its declaration: a correct serializer must refuse it"""


def pascal(name):
    out = ""
    for part in name.split("_"):
        out = out + part[:1].upper() + part[1:].lower()
    return out


def basic_of(t):
    """integer wire type of an int / bool / enum descriptor"""
    if t[0] == "int":
        return t[1]
    if t[0] == "bool":
        return t[1]
    return t[2]


def length_limit(scope, ref):
    """max referenced length = max value of the length field's type + its offset"""
    ins = scope[ref]
    return LIMIT[ins[2]] - 1 + ins[3]


def scope_of(instrs, scope):
    """collect length instructions visible in a unit (chunked shares the scope, cases do not)"""
    for ins in instrs:
        if ins[0] == "length":
            scope[ins[1]] = ins
        elif ins[0] == "chunked":
            scope_of(ins[1], scope)
    return scope


# =========================================================================================== serialize
def put_int(out, basic, v):
    if v is None:
        raise RefInvalid("missing")
    if v >= LIMIT[basic]:
        raise RefInvalid("integer at or above its limit")
    if basic == "byte":
        out.append(v)
    else:
        for b in enc_num(v, WIDTH[basic]):
            out.append(b)


def put_text(out, kind, s, length, is_padded, san, scope):
    if s is None:
        raise RefInvalid("missing")
    img = image(s, san)
    n = len(img)
    if length is None:
        body = img
    elif length[0] == "const":
        if is_padded:
            if n > length[1]:
                raise RefInvalid("longer than padded length")
            body = padded(img, length[1])
        else:
            if n != length[1]:
                raise RefInvalid("length differs from fixed length")
            body = img
    else:
        if n > length_limit(scope, length[1]):
            raise RefInvalid("longer than the length field allows")
        body = img
    if kind == "encoded_string":
        body = ostr_encode(body)
    for b in body:
        out.append(b)


def put_value(types, out, t, v, length, is_padded, san, scope):
    k = t[0]
    if k == "int":
        put_int(out, t[1], v)
    elif k == "bool":
        if v is None:
            raise RefInvalid("missing")
        put_int(out, t[1], 1 if v else 0)
    elif k == "enum":
        put_int(out, t[2], v)
    elif k == "str":
        put_text(out, t[1], v, length, is_padded, san, scope)
    elif k == "blob":
        if v is None:
            raise RefInvalid("missing")
        for b in v:
            out.append(b)
    else:
        if v is None:
            raise RefInvalid("missing")
        ser_unit(types, types[t[1]][1], v, out, san)


def hard_value(t, text):
    if t[0] == "int":
        return int(text)
    if t[0] == "bool":
        return text == "true"
    return text


def ser_unit(types, instrs, tree, out, san, in_chunk=False):
    """append the wire image of one unit to `out`; `san` = sanitisation mode the unit is entered with;
    in_chunk = the unit's body is lexically inside a chunked section of its owner (case bodies)"""
    st = {"start": len(out), "missing": False}
    ser_instrs(types, instrs, tree, out, san, st, scope_of(instrs, {}), in_chunk)


def ser_instrs(types, instrs, tree, out, san, st, scope, in_chunk):
    for ins in instrs:
        tag = ins[0]
        if tag == "field":
            name = ins[1]
            if ins[6] is not None:
                put_value(types, out, ins[2], hard_value(ins[2], ins[6]), ins[3], ins[4], san, scope)
                continue
            v = tree[name]
            if ins[5]:
                st["missing"] = st["missing"] or v is None
                if st["missing"]:
                    continue
            put_value(types, out, ins[2], v, ins[3], ins[4], san, scope)
        elif tag == "length":
            v = tree[ins[1]]
            if ins[4]:
                st["missing"] = st["missing"] or v is None
                if st["missing"]:
                    continue
            if v is None:
                v = 0           # a required length whose (optional) referent is absent counts nothing
            wire = v - ins[3]
            assume(wire >= 0)
            put_int(out, ins[2], wire)
        elif tag == "array":
            v = tree[ins[1]]
            if ins[4]:
                st["missing"] = st["missing"] or v is None
                if st["missing"]:
                    continue
            if v is None:
                raise RefInvalid("missing")
            n = len(v)
            if ins[3] is not None:
                if ins[3][0] == "const":
                    if n != ins[3][1]:
                        raise RefInvalid("array length differs from fixed length")
                elif n > length_limit(scope, ins[3][1]):
                    raise RefInvalid("array longer than the length field allows")
            for i in range(n):
                if ins[5] and not ins[6] and i > 0:
                    out.append(0xFF)
                put_value(types, out, ins[2], v[i], None, False, san, scope)
                if ins[5] and ins[6]:
                    out.append(0xFF)
        elif tag == "dummy":
            if len(out) == st["start"]:
                put_value(types, out, ins[1], hard_value(ins[1], ins[2]), None, False, san, scope)
        elif tag == "chunked":
            ser_instrs(types, ins[1], tree, out, True, st, scope, True)
            if not in_chunk:
                # the unit's own chunked section is over: what it declares after the section is outside chunked mode,
                # also when the unit itself was entered in sanitising mode (nested in a chunked parent) - the write-side
                # mirror of des_instrs' mr.set_mode(False), and the documented mechanism ("off at exit")
                san = False
        elif tag == "break":
            st["missing"] = False
            out.append(0xFF)
        elif tag == "switch":
            fld = ins[1]
            val = tree[fld]
            data = tree[fld + "_data"]
            chosen = None
            default = None
            for c in ins[2]:
                if c[0] == "default":
                    default = c
                elif chosen is None and fork(val == c[1]):
                    chosen = c
            if chosen is None:
                chosen = default
            if chosen is not None:
                if len(chosen[3]) == 0:
                    if data is not None:
                        raise RefInvalid("case data given for an empty case")
                else:
                    if data is None or data["__case__"] != chosen[2]:
                        raise RefInvalid("case data of the wrong kind")
                    ser_unit(types, chosen[3], data, out, san, in_chunk)


def ref_serialize(types, instrs, tree, san, lexical=False):
    out = []
    ser_unit(types, instrs, tree, out, san, lexical)
    return out


# =========================================================================================== deserialize
def get_int(mr, basic):
    if basic == "byte":
        return mr.get_byte()
    if basic == "char":
        return mr.get_char()
    if basic == "short":
        return mr.get_short()
    if basic == "three":
        return mr.get_three()
    return mr.get_int()


def get_value(types, mr, t, length, is_padded, env):
    k = t[0]
    if k == "int":
        return get_int(mr, t[1])
    if k == "bool":
        return get_int(mr, t[1]) != 0
    if k == "enum":
        return get_int(mr, t[2])
    if k == "blob":
        return mr.get_bytes(mr.remaining())
    if k == "struct":
        return des_unit(types, types[t[1]][1], mr)
    if length is None:
        return mr.get_string() if t[1] == "string" else mr.get_encoded_string()
    n = length[1] if length[0] == "const" else env[length[1]]
    if n < 0:
        raise ValueError("negative length")
    if t[1] == "string":
        return mr.get_fixed_string(n, is_padded)
    return mr.get_fixed_encoded_string(n, is_padded)


def des_unit(types, instrs, mr, in_chunk=False):
    old = mr.mode
    st = {"start": mr.pos}
    tree = {}
    try:
        des_instrs(types, instrs, mr, tree, st, {}, in_chunk)
    finally:
        mr.set_mode(old)
    tree["__size__"] = mr.pos - st["start"]
    return tree


def des_instrs(types, instrs, mr, tree, st, env, in_chunk):
    for ins in instrs:
        tag = ins[0]
        if tag == "field":
            name = ins[1]
            if name is None:
                get_value(types, mr, ins[2], ins[3], ins[4], env)
                continue
            if ins[5]:
                if fork(mr.remaining() > 0):
                    tree[name] = get_value(types, mr, ins[2], ins[3], ins[4], env)
                else:
                    tree[name] = None
            else:
                tree[name] = get_value(types, mr, ins[2], ins[3], ins[4], env)
            if ins[6] is not None:
                tree[name] = hard_value(ins[2], ins[6])
        elif tag == "length":
            if ins[4]:
                if fork(mr.remaining() > 0):
                    env[ins[1]] = get_int(mr, ins[2]) + ins[3]
                else:
                    env[ins[1]] = None
            else:
                env[ins[1]] = get_int(mr, ins[2]) + ins[3]
        elif tag == "array":
            name = ins[1]
            present = True
            if ins[4]:
                present = fork(mr.remaining() > 0)
            if not present:
                tree[name] = None
                continue
            items = []
            if ins[3] is not None:
                n = ins[3][1] if ins[3][0] == "const" else env[ins[3][1]]
                n = fork(n) if fork(n > 0) else 0       # a non-positive count reads nothing
                for i in range(n):
                    items.append(get_value(types, mr, ins[2], None, False, env))
                    if ins[5] and (ins[6] or i + 1 < n):
                        mr.next_chunk()
            else:
                size = None
                if not ins[5]:
                    size = elem_size(types, ins[2])
                if size is not None:
                    n = fork(mr.remaining() // size)
                    for i in range(n):
                        items.append(get_value(types, mr, ins[2], None, False, env))
                else:
                    while fork(mr.remaining() > 0):
                        items.append(get_value(types, mr, ins[2], None, False, env))
                        if ins[5]:
                            mr.next_chunk()
            tree[name] = items
        elif tag == "dummy":
            if fork(mr.pos == st["start"]):
                get_value(types, mr, ins[1], None, False, env)
        elif tag == "chunked":
            if in_chunk:
                des_instrs(types, ins[1], mr, tree, st, env, True)
            else:
                mr.set_mode(True)
                des_instrs(types, ins[1], mr, tree, st, env, True)
                mr.set_mode(False)
        elif tag == "break":
            mr.next_chunk()
        elif tag == "switch":
            fld = ins[1]
            val = tree[fld]
            chosen = None
            default = None
            for c in ins[2]:
                if c[0] == "default":
                    default = c
                elif chosen is None and fork(val == c[1]):
                    chosen = c
            if chosen is None:
                chosen = default
            data = None
            if chosen is not None and len(chosen[3]) > 0:
                data = des_unit(types, chosen[3], mr, in_chunk)
                data["__case__"] = chosen[2]
            tree[fld + "_data"] = data


def elem_size(types, t):
    k = t[0]
    if k == "int":
        return WIDTH[t[1]]
    if k == "bool":
        return WIDTH[t[1]]
    if k == "enum":
        return WIDTH[t[2]]
    if k == "struct":
        return types[t[1]][3]
    return None


def ref_deserialize(types, instrs, data, chunked, lexical=False):
    mr = ModelReader(data)
    mr.set_mode(chunked)
    tree = des_unit(types, instrs, mr, lexical)
    return tree, mr


# =========================================================================================== objects
def class_of(cls_module, cls_name):
    return load_class(cls_module, cls_name)


def build_value(types, t, v):
    """interpretable value -> what the generated constructor takes"""
    if v is None:
        return None
    k = t[0]
    if k == "enum":
        return load_class(types[t[1]][3], t[1])(v)
    if k == "struct":
        return build(types, load_class(types[t[1]][2], t[1]), types[t[1]][1], v)
    return v


ARRAYS = {"as": "list"}      # "iter": array arguments are handed over as one-shot iterators (consumable once)


def build(types, cls, instrs, tree):
    kw = {}
    collect_kwargs(types, cls, instrs, tree, kw)
    return cls(**kw)


def collect_kwargs(types, cls, instrs, tree, kw):
    for ins in instrs:
        tag = ins[0]
        if tag == "field":
            if ins[1] is not None:
                kw[ins[1]] = build_value(types, ins[2], tree[ins[1]])
        elif tag == "array":
            v = tree[ins[1]]
            if v is None:
                kw[ins[1]] = None
            else:
                items = [build_value(types, ins[2], x) for x in v]
                kw[ins[1]] = iter(items) if ARRAYS["as"] == "iter" else items
        elif tag == "chunked":
            collect_kwargs(types, cls, ins[1], tree, kw)
        elif tag == "switch":
            fld = ins[1]
            data = tree[fld + "_data"]
            if data is None:
                kw[fld + "_data"] = None
            else:
                case = None
                for c in ins[2]:
                    if c[2] == data["__case__"]:
                        case = c
                ccls = getattr(cls, pascal(fld) + "Data" + case[2])
                kw[fld + "_data"] = build(types, ccls, case[3], data)


def same_value(types, t, got, want, tag):
    """compare a generated object's attribute with a tree value (checks are labelled with the field path)"""
    if want is None:
        check(got is None, tag + " is absent")
        return
    check(got is not None, tag + " is present")
    if got is None:
        return
    k = t[0]
    if k == "enum":
        check(int(got) == want, tag + " (enum ordinal) equal")
        check(type(got).__name__ == t[1], tag + " is an instance of its declared enum")
    elif k == "struct":
        same_obj(types, types[t[1]][1], got, want, tag)
    elif k == "blob":
        check(len(got) == len(want), tag + " blob length equal")
        check(bytes(got) == bytes(want), tag + " blob equal")
    elif k == "str":
        check(len(got) == len(want), tag + " text length equal")
        check(got == want, tag + " text equal")
    else:
        check(got == want, tag + " equal")


def same_obj(types, instrs, obj, tree, tag):
    if "__size__" in tree:
        check(obj.byte_size == tree["__size__"], tag + ".byte_size equals the bytes consumed")
    same_fields(types, instrs, obj, tree, tag)


def same_fields(types, instrs, obj, tree, tag):
    for ins in instrs:
        k = ins[0]
        if k == "field":
            if ins[1] is not None:
                same_value(types, ins[2], getattr(obj, ins[1]), tree[ins[1]], tag + "." + ins[1])
        elif k == "array":
            got = getattr(obj, ins[1])
            want = tree[ins[1]]
            if want is None:
                check(got is None, tag + "." + ins[1] + " is absent")
            else:
                check(got is not None, tag + "." + ins[1] + " is present")
                if got is not None:
                    check(len(got) == len(want), tag + "." + ins[1] + " array length equal")
                    if len(got) == len(want):
                        for i in range(len(want)):
                            same_value(types, ins[2], got[i], want[i], tag + "." + ins[1] + "[]")
        elif k == "chunked":
            same_fields(types, ins[1], obj, tree, tag)
        elif k == "switch":
            fld = ins[1]
            got = getattr(obj, fld + "_data")
            want = tree[fld + "_data"]
            if want is None:
                check(got is None, tag + "." + fld + "_data is None")
            else:
                check(got is not None, tag + "." + fld + "_data is present")
                if got is not None:
                    check(type(got).__name__ == pascal(fld) + "Data" + want["__case__"], tag + "." + fld + "_data has the case's class")
                    for c in ins[2]:
                        if c[2] == want["__case__"]:
                            same_obj(types, c[3], got, want, tag + "." + fld + "_data")
