"""One declaration-violating change applied to an otherwise valid value tree (C16), at any field and depth.

A `plan` dict {"target": k, "seen": 0, "what": None} travels through generation; the k-th eligible site gets
the violation.  Kinds (exactly those the property lists):
  none      a required (named, non-optional, non-hardcoded) field left as None
  fixedlen  a string/array whose length differs from its fixed length
  overlen   a string/array longer than its padded / length-field limit
  overint   an integer (or enum ordinal) at or above its type's limit
  casedata  switch case data of the wrong kind (missing, of another case's class, or given for an empty case)
"""
from vh_refsem import LIMIT, length_limit, scope_of, hard_value
from vh_gentree import pick, gen_text, gen_value, options_upto


def hit(plan):
    plan["seen"] = plan["seen"] + 1
    return plan["seen"] - 1 == plan["target"]


def mut_value(types, t, length, is_padded, tag, cfg, san, plan, scope, in_array, len_ref_ok):
    """value for one field/element, possibly carrying the planned violation"""
    k = t[0]
    if not in_array and hit(plan):
        # required value left as None (array elements are not 'fields': skipped)
        if not (length is not None and length[0] == "ref"):      # len(None) would already fail in the constructor
            plan["what"] = "none " + tag
            return None
    if k == "int" or k == "enum":
        basic = t[1] if k == "int" else t[2]
        if hit(plan):
            plan["what"] = "overint " + tag
            return sym_int(tag, LIMIT[basic], None)
        return sym_int(tag, 0, LIMIT[basic] - 1)
    if k == "bool":
        return sym_bool(tag)
    if k == "blob":
        return sym_bytes(tag, pick(tag + "#len", cfg["lens"]))
    if k == "struct":
        return mut_unit(types, types[t[1]][1], tag, cfg, san, plan)
    # text
    if length is None:
        L = pick(tag + "#len", cfg["lens"])
    elif length[0] == "const":
        if hit(plan):
            if is_padded:
                L = length[1] + 1
                plan["what"] = "overlen " + tag
            else:
                L = pick(tag + "#badlen", (length[1] + 1, length[1] - 1) if length[1] > 0 else (length[1] + 1,))
                plan["what"] = "fixedlen " + tag
        else:
            L = length[1] if not is_padded else pick(tag + "#len", options_upto(cfg["lens"], length[1], length[1]))
    else:
        lim = length_limit(scope, length[1])
        if lim <= 4 and hit(plan):
            L = lim + 1
            plan["what"] = "overlen " + tag
        else:
            L = pick(tag + "#len", options_upto(cfg["lens"], lim))
    return gen_text(tag, L, t[1], is_padded, san, "any")


def mut_unit(types, instrs, tag, cfg, san, plan):
    tree = {}
    st = {"present": True}
    mut_instrs(types, instrs, tree, tag, cfg, san, plan, st, scope_of(instrs, {}))
    return tree


def mut_instrs(types, instrs, tree, tag, cfg, san, plan, st, scope):
    for ins in instrs:
        k = ins[0]
        if k == "field":
            name = ins[1]
            if name is None:
                continue
            if ins[6] is not None:
                tree[name] = hard_value(ins[2], ins[6])
                continue
            if ins[5]:
                st["present"] = st["present"] and pick(tag + "." + name + "#present", (True, False))
                if not st["present"]:
                    tree[name] = None
                    continue
                v = gen_value(types, ins[2], ins[3], ins[4], tag + "." + name, cfg, san, "any", scope)
            else:
                v = mut_value(types, ins[2], ins[3], ins[4], tag + "." + name, cfg, san, plan, scope, False, True)
            tree[name] = v
            if v is not None and ins[3] is not None and ins[3][0] == "ref":
                tree[ins[3][1]] = len(v)
        elif k == "length":
            if ins[1] not in tree:
                tree[ins[1]] = None
        elif k == "array":
            name = ins[1]
            if ins[4]:
                st["present"] = st["present"] and pick(tag + "." + name + "#present", (True, False))
                if not st["present"]:
                    tree[name] = None
                    continue
            if ins[3] is None:
                n = pick(tag + "." + name + "#count", cfg["counts"])
            elif ins[3][0] == "const":
                n = ins[3][1]
                if hit(plan):
                    n = pick(tag + "." + name + "#badcount", (n + 1, n - 1) if n > 0 else (n + 1,))
                    plan["what"] = "fixedlen " + tag + "." + name
            else:
                lim = length_limit(scope, ins[3][1])
                if lim <= 4 and hit(plan):
                    n = lim + 1
                    plan["what"] = "overlen " + tag + "." + name
                else:
                    n = pick(tag + "." + name + "#count", options_upto(cfg["counts"], lim))
            items = []
            for i in range(n):
                items.append(mut_value(types, ins[2], None, False, tag + "." + name + "[%d]" % i, cfg, san, plan, scope, True, False))
            tree[name] = items
            if ins[3] is not None and ins[3][0] == "ref":
                tree[ins[3][1]] = n
        elif k == "chunked":
            mut_instrs(types, ins[1], tree, tag, cfg, True, plan, st, scope)
        elif k == "break":
            st["present"] = True
        elif k == "switch":
            fld = ins[1]
            cases = ins[2]
            has_default = False
            for c in cases:
                if c[0] == "default":
                    has_default = True
            nopts = len(cases) + (0 if has_default else 1)
            which = fork(sym_int(tag + "." + fld + "#case", 0, nopts - 1))
            val = tree[fld]
            chosen = None
            if val is not None:
                if which < len(cases) and cases[which][0] == "value":
                    chosen = cases[which]
                    assume(val == chosen[1])
                else:
                    for c in cases:
                        if c[0] == "value":
                            assume(val != c[1])
                    if which < len(cases):
                        chosen = cases[which]
            wrong = chosen is not None and val is not None and hit(plan)
            if wrong:
                plan["what"] = "casedata " + tag + "." + fld
                if len(chosen[3]) == 0:
                    # data given for an empty case: borrow any non-empty case's class
                    other = None
                    for c in cases:
                        if len(c[3]) > 0:
                            other = c
                    if other is None:
                        plan["what"] = None
                        plan["seen"] = plan["seen"] - 1
                        tree[fld + "_data"] = None
                    else:
                        data = mut_unit(types, other[3], tag + "." + fld + "_data", cfg, san, {"target": -1, "seen": 0, "what": None})
                        data["__case__"] = other[2]
                        tree[fld + "_data"] = data
                else:
                    other = None
                    for c in cases:
                        if len(c[3]) > 0 and c[2] != chosen[2]:
                            other = c
                    if other is not None and pick(tag + "." + fld + "#wrongkind", (True, False)):
                        data = mut_unit(types, other[3], tag + "." + fld + "_data", cfg, san, {"target": -1, "seen": 0, "what": None})
                        data["__case__"] = other[2]
                        tree[fld + "_data"] = data
                    else:
                        tree[fld + "_data"] = None
            elif chosen is None or len(chosen[3]) == 0:
                tree[fld + "_data"] = None
            else:
                data = mut_unit(types, chosen[3], tag + "." + fld + "_data", cfg, san, plan)
                data["__case__"] = chosen[2]
                tree[fld + "_data"] = data
