"""C10 - packet-encryption primitives are lossless and exactly invertible."""
from eolib.encrypt.encryption_utils import interleave, deinterleave, flip_msb, swap_multiples


def inter_inverse(L):
    x = sym_bytes("x", L)
    y = bytearray(x)
    interleave(y)
    check(len(y) == L, "interleave keeps length")
    z = bytearray(y)
    deinterleave(z)
    check(z == x, "deinterleave(interleave(x)) == x")
    u = bytearray(x)
    deinterleave(u)
    check(len(u) == L, "deinterleave keeps length")
    v = bytearray(u)
    interleave(v)
    check(v == x, "interleave(deinterleave(x)) == x")
    observe("int", y)
    observe("deint", u)


def inter_permutation(L):
    """With pairwise distinct input cells every output cell equals exactly one input cell, outputs are
    pairwise distinct, and a second independent input is moved by the very same position map."""
    x = sym_bytes("x", L)
    w = sym_bytes("w", L)
    for i in range(L):
        for j in range(i + 1, L):
            assume(x[i] != x[j])
            assume(w[i] != w[j])
    for which in (0, 1):
        y = bytearray(x)
        q = bytearray(w)
        if which == 0:
            interleave(y)
            interleave(q)
        else:
            deinterleave(y)
            deinterleave(q)
        for o in range(L):
            hits = 0
            for i in range(L):
                hits = hits + (1 if y[o] == x[i] else 0)
                # same source position for the second input
                check((y[o] == x[i]) == (q[o] == w[i]), "position map depends only on the length")
            check(hits == 1, "each output is exactly one input")
        for o in range(L):
            for p in range(o + 1, L):
                check(y[o] != y[p], "outputs pairwise distinct")


def inter_expected(L):
    """The documented weave: front half ascending into even slots, back half descending into odd slots."""
    x = sym_bytes("x", L)
    y = bytearray(x)
    interleave(y)
    exp = [0] * L
    lo = 0
    hi = L - 1
    k = 0
    while lo <= hi:
        exp[k] = lo
        k += 1
        lo += 1
        if lo <= hi:
            exp[k] = hi
            k += 1
            hi -= 1
    for o in range(L):
        check(y[o] == x[exp[o]], "interleave matches the documented weave")


def flip(L):
    x = sym_bytes("x", L)
    f = bytearray(x)
    flip_msb(f)
    check(len(f) == L, "flip keeps length")
    for i in range(L):
        check(f[i] == (x[i] if (x[i] == 0 or x[i] == 128) else (x[i] + 128 if x[i] < 128 else x[i] - 128)),
              "flip toggles bit 7 except for 0 and 128")
    g = bytearray(f)
    flip_msb(g)
    check(g == x, "flip_msb is an involution")
    observe("flip", f)


def swap(L):
    x = sym_bytes("x", L)
    m = sym_int("m", 1, None)
    y = bytearray(x)
    forked(swap_multiples, y, m)
    check(len(y) == L, "swap keeps length")
    for i in range(L):
        check(x[i] % m == 0 or y[i] == x[i], "non-multiples keep their position")
        check((x[i] % m == 0) == (y[i] % m == 0), "multiples stay on multiple positions")
    # multiset preserved: y is a permutation of x -> for an arbitrary probe value the counts agree
    probe = sym_int("probe", 0, 255)
    cx = 0
    cy = 0
    for i in range(L):
        cx = cx + (1 if x[i] == probe else 0)
        cy = cy + (1 if y[i] == probe else 0)
    check(cx == cy, "multiset of bytes preserved")
    z = bytearray(y)
    forked(swap_multiples, z, m)
    check(z == x, "swap_multiples is an involution")
    observe("swap", y)


def swap_runs(L):
    """Each maximal run of multiples is reversed in place."""
    x = sym_bytes("x", L)
    m = sym_int("m", 1, None)
    y = bytearray(x)
    forked(swap_multiples, y, m)
    i = 0
    while i < L:
        if fork(x[i] % m == 0):
            j = i
            while j < L and fork(x[j] % m == 0):
                j += 1
            for k in range(i, j):
                check(y[k] == x[i + j - 1 - k], "run reversed")
            i = j
        else:
            check(y[i] == x[i], "non-multiple fixed")
            i += 1


def swap_zero_negative(L):
    x = sym_bytes("x", L)
    y = bytearray(x)
    swap_multiples(y, 0)
    check(y == x, "multiple 0 is the identity")
    neg = sym_int("neg", None, -1)
    z = bytearray(x)
    try:
        forked(swap_multiples, z, neg)
        raised = False
    except ValueError:
        raised = True
    check(raised, "negative multiple rejected")
    check(z == x, "rejected call leaves data unchanged")


def pipeline(L, m, order):
    """An encrypt pipeline of the four primitives and its reverse restore the input (concrete multiple m:
    after interleave/flip the bytes are ite-terms and `term % symbolic m` is beyond the solver; the
    symbolic-multiple claim is carried by the per-primitive jobs above)."""
    x = sym_bytes("x", L)
    y = bytearray(x)
    if order == 0:
        forked(swap_multiples, y, m)
        interleave(y)
        flip_msb(y)
        observe("enc", y)
        flip_msb(y)
        deinterleave(y)
        forked(swap_multiples, y, m)
    else:
        # the client's order: flip, interleave, swap  /  swap, deinterleave, flip
        flip_msb(y)
        interleave(y)
        forked(swap_multiples, y, m)
        observe("enc", y)
        forked(swap_multiples, y, m)
        deinterleave(y)
        flip_msb(y)
    check(y == x, "decrypt(encrypt(x)) == x")


def after_earlier_calls(L0, L, m):
    """no memory: every primitive's result depends on its arguments only, not on earlier calls in the process"""
    a = bytearray(sym_bytes("a", L0))
    interleave(a)
    deinterleave(a)
    flip_msb(a)
    swap_multiples(a, m)
    x = sym_bytes("x", L)
    y = bytearray(x)
    interleave(y)
    z = bytearray(y)
    deinterleave(z)
    check(z == x, "after earlier calls: deinterleave(interleave(x)) == x")
    f = bytearray(x)
    flip_msb(f)
    for i in range(L):
        check(f[i] == (x[i] ^ 0x80 if (x[i] != 0 and x[i] != 0x80) else x[i]), "after earlier calls: flip_msb image")
    s1 = bytearray(x)
    swap_multiples(s1, m)
    s2 = bytearray(s1)
    swap_multiples(s2, m)
    check(s2 == x, "after earlier calls: swap_multiples is an involution")


def through_memoryview(L, m):
    """the primitives work in place on any writable buffer: a memoryview over the caller's bytearray gives the same
    result as the bytearray itself (and leaves the result in the caller's buffer)"""
    x = sym_bytes("x", L)
    for which in range(4):
        direct = bytearray(x)
        buf = bytearray(x)
        view = memoryview(buf)
        if which == 0:
            interleave(direct)
            interleave(view)
        elif which == 1:
            deinterleave(direct)
            deinterleave(view)
        elif which == 2:
            flip_msb(direct)
            flip_msb(view)
        else:
            swap_multiples(direct, m)
            swap_multiples(view, m)
        check(buf == direct, "through a memoryview: same result as on the bytearray (primitive %d)" % which)
