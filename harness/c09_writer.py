"""C09 - EoWriter validates atomically and sanitises exactly when asked.

Inductive step: a writer holding an arbitrary short prefix, in an arbitrary sanitisation mode, receives ONE
add_* call with symbolic arguments.  Either it raises ValueError (exactly when the documented limit / length
relation is violated) and its contents are unchanged, or it appends exactly the reference image.
"""
from eolib.data.eo_writer import EoWriter
from vh_wire import enc_num, image, padded, LIMIT, WIDTH
from vh_reader_model import ostr_encode


HISTORY = {"on": False}


def fresh(npre):
    pre = sym_bytes("pre", npre)
    mode = sym_bool("mode")
    w = EoWriter()
    check(len(w) == 0, "new writer is empty")
    check(w.string_sanitization_mode == False, "sanitisation is off by default")
    w.add_bytes(pre)
    if HISTORY["on"]:
        # an arbitrary-looking past: writes of every family (padded ones with more and with less padding than the step
        # will need), a rejected write, mode toggles - whatever a writer may cache between calls has been exercised
        h = sym_str("h", 1)
        w.string_sanitization_mode = sym_bool("hmode")
        w.add_fixed_string(h, fork(sym_int("hl1", 1, 9)), True)
        w.add_fixed_encoded_string(h, fork(sym_int("hl2", 1, 4)), True)
        w.add_string(h)
        w.add_encoded_string(h)
        w.add_short(sym_int("hs", 0, LIMIT["short"] - 1))
        try:
            w.add_char(sym_int("hbad", LIMIT["char"], None))
            rejected = False
        except ValueError:
            rejected = True
        check(rejected, "history: over-limit char rejected")
        try:
            w.add_fixed_string(h, 0)
            rejected = False
        except ValueError:
            rejected = True
        check(rejected, "history: over-long fixed string rejected")
        pre = w.to_bytearray()
    w.string_sanitization_mode = mode
    check(w.string_sanitization_mode == mode, "mode getter returns what was set")
    return w, pre, mode


def with_history(which, *args):
    """the same inductive step, applied to a writer with a past (see fresh)"""
    HISTORY["on"] = True
    try:
        if which == "number":
            number(*args)
        elif which == "string":
            string(*args)
        elif which == "fixed":
            fixed(*args)
        else:
            raw_bytes(*args)
    finally:
        HISTORY["on"] = False


def expect_appended(w, pre, exp, tag):
    data = w.to_bytearray()
    check(len(w) == len(pre) + len(exp), tag + ": appends exactly the declared number of bytes")
    check(len(data) == len(w), tag + ": to_bytearray has len(writer) bytes")
    check(data[:len(pre)] == bytearray(pre), tag + ": earlier content untouched")
    check(data[len(pre):] == bytearray(exp), tag + ": emitted bytes equal the reference image")


def number(kind, npre):
    w, pre, mode = fresh(npre)
    v = sym_int("v", 0, None)
    try:
        if kind == "byte":
            w.add_byte(v)
        elif kind == "char":
            w.add_char(v)
        elif kind == "short":
            w.add_short(v)
        elif kind == "three":
            w.add_three(v)
        else:
            w.add_int(v)
        raised = False
    except ValueError:
        raised = True
    check(raised == (v >= LIMIT[kind]), kind + ": ValueError exactly when the value is at or above the limit")
    if raised:
        expect_appended(w, pre, [], kind + " rejected")
    else:
        exp = [v] if kind == "byte" else enc_num(v, WIDTH[kind])
        expect_appended(w, pre, exp, kind)
        for b in exp:
            check(kind == "byte" or (1 <= b <= 254), kind + ": no 0x00 / 0xFF in an encoded integer")
    check(w.string_sanitization_mode == mode, kind + ": mode unchanged by the write")
    observe("data", w.to_bytearray())


def raw_bytes(n, npre):
    w, pre, mode = fresh(npre)
    b = sym_bytes("b", n)
    w.add_bytes(b)
    expect_appended(w, pre, b, "add_bytes")
    w2 = EoWriter()
    w2.add_bytes(bytearray(b))
    check(w2.to_bytearray() == bytearray(b), "add_bytes accepts a bytearray")
    c = w.to_bytearray()
    c.append(1)
    check(len(w) == len(pre) + n, "to_bytearray returns a copy")


def string(kind, L, npre):
    """kind: string | encoded_string"""
    w, pre, mode = fresh(npre)
    s = sym_str("s", L)
    if kind == "string":
        w.add_string(s)
    else:
        w.add_encoded_string(s)
    for san in (False, True):
        if fork(mode) == san:
            img = image(s, san)
            exp = img if kind == "string" else ostr_encode(img)
            expect_appended(w, pre, exp, kind)
            if san:
                for b in exp:
                    check(b != 0xFF, kind + ": sanitised string write emits no 0xFF")
    observe("data", w.to_bytearray())


def fixed(kind, L, npre, lo, hi):
    """kind: fixed_string | fixed_encoded_string ; length (in [lo, hi]) and padded symbolic"""
    w, pre, mode = fresh(npre)
    s = sym_str("s", L)
    length = sym_int("length", lo, hi)
    pad = sym_bool("padded")
    try:
        if kind == "fixed_string":
            w.add_fixed_string(s, length, pad)
        else:
            w.add_fixed_encoded_string(s, length, pad)
        raised = False
    except ValueError:
        raised = True
    bad = (L > length) if fork(pad) else (L != length)
    check(raised == bad, kind + ": ValueError exactly when the length relation is violated")
    if raised:
        expect_appended(w, pre, [], kind + " rejected")
    else:
        n = fork(length)
        san = fork(mode)
        img = image(s, san)
        body = padded(img, n) if fork(pad) else img
        exp = body if kind == "fixed_string" else ostr_encode(body)
        expect_appended(w, pre, exp, kind)
        check(len(exp) == n, kind + ": exactly `length` bytes")
        if san:
            # 0xFF may only be padding: the first L bytes (before encoding) are never 0xFF
            for i in range(L):
                check(body[i] != 0xFF, kind + ": sanitised string part contains no 0xFF")
            cnt = 0
            for b in exp:
                cnt = cnt + (1 if b == 0xFF else 0)
            check(cnt == n - L, kind + ": exactly the padding bytes are 0xFF")
    check(w.string_sanitization_mode == mode, kind + ": mode unchanged by the write")
    observe("data", w.to_bytearray())


def defaults(L):
    """padded defaults to False"""
    s = sym_str("s", L)
    w = EoWriter()
    w.add_fixed_string(s, L)
    w.add_fixed_encoded_string(s, L)
    check(len(w) == 2 * L, "default is unpadded, exact length")
    try:
        w.add_fixed_string(s, L + 1)
        raised = False
    except ValueError:
        raised = True
    check(raised, "default (unpadded) rejects a shorter string")
    check(len(w) == 2 * L, "rejected write leaves the writer unchanged")


def toggling(L):
    """mode toggled between writes: each write follows the mode in force at that moment"""
    a = sym_str("a", L)
    b = sym_str("b", L)
    m1 = sym_bool("m1")
    m2 = sym_bool("m2")
    w = EoWriter()
    w.string_sanitization_mode = m1
    w.add_string(a)
    w.string_sanitization_mode = m2
    w.add_string(b)
    s1 = fork(m1)
    s2 = fork(m2)
    check(w.to_bytearray() == bytearray(image(a, s1) + image(b, s2)), "each write uses the mode in force")
