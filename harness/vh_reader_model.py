"""O-reader: the documented chunked-reading model, written as a small functional model that shares no
code with EoReader.  (Also O-num / O-str decoding used by the typed reads.)

State: data (immutable), pos, mode, cs (start of the current chunk).
  brk        = first index >= cs holding 0xFF, else len(data)
  remaining  = brk - min(pos, brk) in chunked mode, len - pos otherwise
  reads      take min(k, remaining) bytes from pos
  next_chunk : pos = brk (+1 if brk < len); cs = pos          (RuntimeError outside chunked mode)
  slice(i,l) : fresh model over data[clamp(i) : clamp(i) + min(l, len - clamp(i))]
"""


def onum(b):
    """sum of (byte-1)*253^i up to the first 0xFE, at most four bytes"""
    total = 0
    live = True
    w = 1
    for i in range(min(len(b), 4)):
        live = live and b[i] != 0xFE
        total = total + ((b[i] - 1) * w if live else 0)
        w = w * 253
    return total


def ostr_byte(c, flippy):
    if c < 0x22 or c > 0x7E:
        return c
    if not flippy:
        return 0x9F - c
    if c < 0x50:
        return 0x9F - c - 0x2E
    return 0x9F - c + 0x2E


def ostr_decode(b):
    """decode_string's image: reverse, then reflect each byte with the parity of its new position."""
    L = len(b)
    out = []
    for j in range(L):
        flippy = ((L % 2) == 1) != ((j % 2) == 1)
        out.append(ostr_byte(b[L - 1 - j], flippy))
    return out


def ostr_encode(b):
    """encode_string's image: reflect each byte with the parity of its position, then reverse."""
    L = len(b)
    out = []
    for j in range(L):
        i = L - 1 - j
        flippy = ((L % 2) == 1) != ((i % 2) == 1)
        out.append(ostr_byte(b[i], flippy))
    return out


def cut_padding(b):
    """bytes before the first 0xFF"""
    n = len(b)
    k = n
    i = n - 1
    while i >= 0:
        if b[i] == 0xFF:
            k = i
        i -= 1
    return b[:k]


def text(b):
    return str_of([cp1252_dec(x) for x in b])


class ModelReader:
    def __init__(self, data):
        self.data = data
        self.n = len(data)
        self.pos = 0
        self.mode = False
        self.cs = 0

    def brk(self):
        r = self.n
        i = self.n - 1
        while i >= self.cs:
            if self.data[i] == 0xFF:
                r = i
            i -= 1
        return r

    def remaining(self):
        if self.mode:
            b = self.brk()
            return b - min(self.pos, b)
        return self.n - self.pos

    def take(self, k):
        m = min(k, self.remaining())
        out = self.data[self.pos:self.pos + m]
        self.pos = self.pos + m
        return out

    def set_mode(self, m):
        self.mode = m

    def next_chunk(self):
        if not self.mode:
            raise RuntimeError("not chunked")
        b = self.brk()
        self.pos = b + (1 if b < self.n else 0)
        self.cs = self.pos

    def get_byte(self):
        b = self.take(1)
        return b[0] if len(b) == 1 else 0

    def get_bytes(self, k):
        return self.take(k)

    def get_char(self):
        return onum(self.take(1))

    def get_short(self):
        return onum(self.take(2))

    def get_three(self):
        return onum(self.take(3))

    def get_int(self):
        return onum(self.take(4))

    def get_string(self):
        return text(self.take(self.remaining()))

    def get_fixed_string(self, k, padded=False):
        b = self.take(k)
        if padded:
            b = cut_padding(b)
        return text(b)

    def get_encoded_string(self):
        return text(ostr_decode(self.take(self.remaining())))

    def get_fixed_encoded_string(self, k, padded=False):
        b = ostr_decode(self.take(k))
        if padded:
            b = cut_padding(b)
        return text(b)

    def slice(self, index=None, length=None):
        if index is None:
            index = self.pos
        if length is None:
            length = max(0, self.n - index)
        begin = max(0, min(self.n, index))
        end = begin + min(self.n - begin, length)
        return ModelReader(self.data[begin:end])
