"""C01 - generated serializers round-trip every well-formed message (corpus classes tagged round-trip)."""
from eolib.data.eo_writer import EoWriter
from eolib.data.eo_reader import EoReader
from vh_gentree import gen_unit
from vh_refsem import build, same_obj


def roundtrip(types, desc, cfg):
    cls = load_class(desc["module"], desc["name"])
    tree = gen_unit(types, desc["instrs"], desc["name"], cfg, desc["entry"], "roundtrip")
    obj = build(types, cls, desc["instrs"], tree)
    w = EoWriter()
    w.string_sanitization_mode = desc["entry"]
    cls.serialize(w, obj)
    data = w.to_bytearray()
    observe("wire", data)
    r = EoReader(data)
    r.chunked_reading_mode = desc["entry"]
    back = cls.deserialize(r)
    same_obj(types, desc["instrs"], back, tree, desc["name"])
    check(r.remaining == 0, "deserializer consumes exactly the bytes written")
    check(r.position == len(data), "reader position at the end")
    check(back.byte_size == len(data), "byte_size equals the number of bytes written")
    check(obj.byte_size == 0, "constructed objects report byte_size 0")


def second_object(types, desc, cfg):
    """no memory in the generated classes: the round trip of an object is unaffected by another object of the same
    class having been built, written and read before it (class-level state, shared instances, cached buffers)"""
    cls = load_class(desc["module"], desc["name"])
    first = gen_unit(types, desc["instrs"], desc["name"] + "#1", cfg, desc["entry"], "roundtrip")
    o1 = build(types, cls, desc["instrs"], first)
    w1 = EoWriter()
    w1.string_sanitization_mode = desc["entry"]
    cls.serialize(w1, o1)
    r1 = EoReader(w1.to_bytearray())
    r1.chunked_reading_mode = desc["entry"]
    b1 = cls.deserialize(r1)
    size1 = b1.byte_size
    tree = gen_unit(types, desc["instrs"], desc["name"], cfg, desc["entry"], "roundtrip")
    obj = build(types, cls, desc["instrs"], tree)
    w = EoWriter()
    w.string_sanitization_mode = desc["entry"]
    cls.serialize(w, obj)
    data = w.to_bytearray()
    r = EoReader(data)
    r.chunked_reading_mode = desc["entry"]
    back = cls.deserialize(r)
    same_obj(types, desc["instrs"], back, tree, desc["name"])
    check(r.remaining == 0, "second object: deserializer consumes exactly the bytes written")
    check(back.byte_size == len(data), "second object: byte_size equals the number of bytes written")
    check(b1.byte_size == size1, "second object: the first deserialized instance keeps its byte_size")
    same_obj(types, desc["instrs"], b1, first, desc["name"] + "#1")
