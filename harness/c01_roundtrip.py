"""C01 - generated serializers round-trip every well-formed message (corpus classes tagged round-trip)."""
from eolib.data.eo_writer import EoWriter
from eolib.data.eo_reader import EoReader
from vh_gentree import gen_unit
from vh_refsem import build, same_obj


def roundtrip(types, desc, cfg):
    cls = load_class(desc["module"], desc["name"])
    tree = gen_unit(types, desc["instrs"], desc["name"], cfg, desc["entry"], "roundtrip")
    obj = build(types, cls, desc["instrs"], tree)
    w = EoWriter()
    w.string_sanitization_mode = desc["entry"]
    cls.serialize(w, obj)
    data = w.to_bytearray()
    observe("wire", data)
    r = EoReader(data)
    r.chunked_reading_mode = desc["entry"]
    back = cls.deserialize(r)
    same_obj(types, desc["instrs"], back, tree, desc["name"])
    check(r.remaining == 0, "deserializer consumes exactly the bytes written")
    check(r.position == len(data), "reader position at the end")
    check(back.byte_size == len(data), "byte_size equals the number of bytes written")
    check(obj.byte_size == 0, "constructed objects report byte_size 0")
