
def f_int_bytes():
    x = sym_int("x", 0, 64008)
    b = x.to_bytes(2, "little")
    check(int.from_bytes(b, "little") == x, "to/from bytes")

def f_divmod():
    x = sym_int("x", 0, 64008)
    q, r = divmod(x, 253)
    check(q * 253 + r == x, "divmod")

def f_genexpr():
    b = sym_bytes("b", 3)
    check(sum(v for v in b) == b[0] + b[1] + b[2], "sum genexpr")
    check(any(v == 255 for v in b) == (255 in b), "any")
    check(all(v < 256 for v in b), "all")

def f_dictcomp():
    b = sym_bytes("b", 2)
    d = {i: v for i, v in enumerate(b)}
    check(d[1] == b[1], "dictcomp")
    s = {1, 2, 3}
    check(2 in s, "set")

def f_zip_reversed_sorted():
    b = sym_bytes("b", 3)
    r = bytes(reversed(b))
    check(r[0] == b[2], "reversed")
    for u, v in zip(b, r[::-1]):
        check(u == v, "zip")
    check(max(b) >= b[0], "max")
    check(min(b[0], b[1]) <= b[0], "min")

def f_format():
    n = 5
    s = "x{}y{:02d}".format(n, 3)
    check(s == "x5y03", "format")
    check(f"{n:>3}" == "  5", "fstring spec")

def f_struct():
    import struct
    x = sym_int("x", 0, 65535)
    b = struct.pack("<H", x)
    check(struct.unpack("<H", b)[0] == x, "struct")

def f_bytes_methods():
    b = sym_bytes("b", 4)
    i = b.find(255)
    check(i == -1 or b[i] == 255, "find")
    check(b.count(255) >= 0, "count")
    check(b.startswith(b[:1]), "startswith")
    check(b.rfind(255) >= i, "rfind")
    p = b.split(b"\xff")
    check(len(p) == b.count(255) + 1, "split")
    check(b"\xff".join(p) == b, "join")

def f_class_features():
    class A:
        __slots__ = ("_v",)
        K = 3
        def __init__(self, v): self._v = v
        @property
        def v(self): return self._v
        @v.setter
        def v(self, x): self._v = x
        @staticmethod
        def s(x): return x + 1
        @classmethod
        def c(cls, x): return cls(x)
        def __eq__(self, o): return isinstance(o, A) and o._v == self._v
        def __len__(self): return 2
        def __getitem__(self, i): return self._v + i
        def __iter__(self): return iter([self._v, self._v + 1])
        def __bool__(self): return True
        def __repr__(self): return "A"
    x = sym_int("x", 0, 10)
    a = A.c(x)
    a.v = A.s(a.v)
    check(a.v == x + 1, "prop")
    check(a == A(x + 1), "eq")
    check(len(a) == 2 and a[1] == x + 2, "len getitem")
    check(list(a)[1] == x + 2, "iter")
    check(bool(a), "bool")

def f_with_finally():
    log = []
    class CM:
        def __enter__(self): log.append(1); return self
        def __exit__(self, *a): log.append(2); return False
    try:
        with CM() as c:
            log.append(3)
            raise ValueError("x")
    except ValueError:
        log.append(4)
    finally:
        log.append(5)
    check(log == [1, 3, 2, 4, 5], "with/finally")

def f_lambda_closure_args():
    x = sym_int("x", 0, 10)
    def mk(k):
        def g(*a, **kw): return sum(a) + kw.get("z", 0) + k
        return g
    h = mk(2)
    check(h(x, 1, z=3) == x + 6, "closure")
    check((lambda q: q * 2)(x) == 2 * x, "lambda")
    check(sorted([3, 1, 2], key=lambda v: -v) == [3, 2, 1], "sorted key")
    check(list(map(lambda v: v + 1, [1, 2])) == [2, 3], "map")
    check(list(filter(None, [0, 1, 2])) == [1, 2], "filter")

def f_match():
    x = sym_int("x", 0, 3)
    match x:
        case 0: r = 10
        case 1 | 2: r = 20
        case _: r = 30
    check(r >= 10, "match")

def f_dataclass():
    from dataclasses import dataclass
    @dataclass
    class P:
        a: int
        b: int = 2
    p = P(sym_int("x", 0, 5))
    check(p.b == 2 and p.a >= 0, "dataclass")

def f_namedtuple():
    from typing import NamedTuple
    class Q(NamedTuple):
        a: int
        b: int
    q = Q(1, sym_int("x", 0, 5))
    check(q.a == 1 and q[1] == q.b, "namedtuple")

def f_str_methods():
    s = sym_str("s", 3)
    check(len(s.encode("windows-1252", "replace")) == 3, "encode")
    check(s[::-1][::-1] == s, "rev")
    check((s + "a").endswith("a"), "endswith")
    check("".join(reversed(s)) == s[::-1], "reversed join")
    check(s.ljust(5, "x")[3:] == "xx", "ljust")
    check(len(s.rstrip("\xff")) <= 3, "rstrip")
    check(ord(s[0]) == ord(s[0]), "ord")
    check(s.isascii() or True, "isascii")
    l = list(s)
    check(len(l) == 3, "list(str)")

def f_bytearray_ops():
    b = bytearray(sym_bytes("b", 3))
    b.extend(b"\x01\x02")
    b += b"\x03"
    b.append(4)
    del b[0]
    b[0:2] = b"\x09"
    b.insert(0, 7)
    b.reverse()
    x = b.pop()
    check(x == 7, "pop")
    check(len(b) == 5, "len")
    b2 = b * 2
    check(len(b2) == 10, "mul")
    mv = memoryview(b)[1:3]
    check(bytes(mv) == bytes(b[1:3]), "mv")
    check(bytes(b).translate(bytes(range(256))) == bytes(b), "translate")
    b.clear()
    check(not b, "clear")

def f_int_ops():
    x = sym_int("x", 0, 255)
    check((x ^ 0x80) ^ 0x80 == x, "xor")
    check(((x << 1) & 0xFF) >> 1 == (x & 0x7F), "shift")
    check(~x == -x - 1, "invert")
    check(abs(x - 300) == 300 - x, "abs")
    check(pow(x, 2) == x * x, "pow")
    check(x.bit_length() <= 8, "bit_length")
    check(bool(x) == (x != 0), "bool")
    check(int(str(5)) == 5, "int(str)")
    check(isinstance(x, int), "isinstance")
    check(round(x) == x, "round")
    check(-(-x // 253) >= x // 253, "ceil div")

def f_exceptions():
    class E(Exception):
        def __init__(self, m, code=3):
            super().__init__(m)
            self.code = code
    try:
        try:
            raise E("a")
        except E as e:
            check(e.code == 3 and str(e) == "a" and e.args == ("a",), "custom exc")
            raise KeyError("k") from e
    except (KeyError, IndexError) as k:
        check(isinstance(k, LookupError), "hierarchy")
    else:
        check(False, "else")
    try:
        assert sym_int("x", 0, 3) < 4, "m"
    except AssertionError:
        check(False, "assert")

def f_globals_iter():
    it = iter([1, 2, 3])
    a = next(it)
    b = next(it, None)
    rest = list(it)
    check((a, b, rest) == (1, 2, [3]), "iter/next")
    def gen(n):
        i = 0
        while i < n:
            yield i
            i += 1
    check(list(gen(3)) == [0, 1, 2], "generator")
    x, *y = [1, 2, 3]
    check(y == [2, 3], "star unpack")
    check([*y, *y] == [2, 3, 2, 3], "star list")
    d = {"a": 1, **{"b": 2}}
    check(d == {"a": 1, "b": 2}, "dict unpack")
    check(list(d.items())[1] == ("b", 2), "items")
    d.setdefault("c", []).append(1)
    check(d.pop("c") == [1], "setdefault/pop")
    d.update(z=1)
    check("z" in d and len(d) == 3, "update")
