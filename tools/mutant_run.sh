#!/bin/sh
# usage: tools/mutant_run.sh <patch.diff|sed-spec> <PROPERTY> [tier]
#   runs ./check against a scratch copy of the repository with the patch applied (never touches /repo)
set -e
patch="$1"; prop="$2"; tier="${3:-quick}"
work="$(mktemp -d /tmp/mutant-XXXXXX)"
trap 'rm -rf "$work"' EXIT
rsync -a --exclude .git --exclude __pycache__ /repo/ "$work/repo/"
( cd "$work/repo" && patch -p1 --quiet < "$patch" )
cd "$(dirname "$0")/.."
VERIF_REPO="$work/repo" ./check "$prop" --tier "$tier"
