#!/usr/bin/env python3
"""Confirm a seeded change produced by an independent agent and run the checks against it.
usage: tools/seed_eval.py <ID> [--props C01,C02] [--tier quick] [--keep]
  expects the agent's worktree at /tmp/seed/<ID> with SEED/{patch.diff,demo.py,notes.md} and the patch APPLIED.
Writes /verif/seeded/<ID>/{patch.diff,demo.py,notes.md,meta.json}; demo.py is stored with the worktree path
replaced by __SEED_REPO__ (tools/seed_demo.sh substitutes it back)."""
import json, os, re, shutil, subprocess, sys, time
HERE = os.path.dirname(os.path.dirname(os.path.abspath(__file__)))


def sh(cmd, cwd=None, env=None, timeout=3600):
    p = subprocess.run(cmd, shell=True, cwd=cwd, env=env, capture_output=True, text=True, timeout=timeout)
    return p.returncode, (p.stdout or "") + (p.stderr or "")


def main():
    sid = sys.argv[1]
    props = [sid[:3]]
    tier = "quick"
    base = "/tmp/seed"
    suffix = ""
    for i, a in enumerate(sys.argv):
        if a == "--props":
            props = sys.argv[i + 1].split(",")
        if a == "--tier":
            tier = sys.argv[i + 1]
        if a == "--dir":
            base = sys.argv[i + 1]
        if a == "--suffix":
            suffix = sys.argv[i + 1]
    wt = f"{base}/{sid}"
    seed = os.path.join(wt, "SEED")
    env = dict(os.environ, PYTHONPATH=f"{wt}/src")
    meta = {"id": sid + suffix, "breaks_property": sid[:3], "confirmed_at": time.strftime("%Y-%m-%d %H:%M:%S"), "ran": []}
    # patch state must equal SEED/patch.diff
    rc, cur = sh("git diff -- src protocol_code_generator", cwd=wt)
    same = cur.strip() == open(os.path.join(seed, "patch.diff")).read().strip()
    meta["patch_matches_worktree"] = same
    rc, out = sh("/venv/bin/python -m pytest -q -p no:cacheprovider --continue-on-collection-errors 2>&1 | tail -1", cwd=wt, env=env)
    meta["suite_with_patch"] = out.strip().splitlines()[-1] if out.strip() else ""
    meta["ran"].append("pytest (whole suite) with the patch applied")
    rc_with, out_with = sh("/venv/bin/python SEED/demo.py", cwd=wt, env=env)
    meta["demo_exit_with_patch"] = rc_with
    sh("git apply -R SEED/patch.diff", cwd=wt)
    rc_without, out_without = sh("/venv/bin/python SEED/demo.py", cwd=wt, env=env)
    rc, out = sh("/venv/bin/python -m pytest -q -p no:cacheprovider --continue-on-collection-errors 2>&1 | tail -1", cwd=wt, env=env)
    meta["suite_without_patch"] = out.strip().splitlines()[-1] if out.strip() else ""
    sh("git apply SEED/patch.diff", cwd=wt)
    meta["demo_exit_without_patch"] = rc_without
    meta["ran"].append("SEED/demo.py with the patch (must fail) and with the patch reverted (must pass)")
    meta["confirmed"] = bool(rc_with != 0 and rc_without == 0 and "140 passed" in meta["suite_with_patch"])
    meta["demo_output_with_patch"] = out_with.strip()[-600:]
    # run the checks against the patched worktree
    results = {}
    for p in props:
        t0 = time.time()
        rc, out = sh(f"./check {p} --tier {tier}", cwd=HERE, env=dict(os.environ, VERIF_REPO=wt), timeout=7200)
        lines = [l for l in out.splitlines() if l.startswith(("VIOLATION", "  job=", "INCONCLUSIVE", "OK property", "KNOWN-FINDING"))]
        results[p] = {"exit": rc, "verdict": {0: "MISSED", 1: "caught", 2: "inconclusive"}.get(rc, str(rc)), "wall_s": round(time.time() - t0, 1),
                      "detail": [l[:400] for l in lines[:4]], "tier": tier}
        meta["ran"].append(f"VERIF_REPO={wt} ./check {p} --tier {tier}")
    meta["checks"] = results
    notes = open(os.path.join(seed, "notes.md")).read()
    meta["needs_to_manifest"] = notes.strip()[:1500]
    dst = os.path.join(HERE, "seeded", sid + suffix)
    os.makedirs(dst, exist_ok=True)
    shutil.copy(os.path.join(seed, "patch.diff"), dst)
    shutil.copy(os.path.join(seed, "notes.md"), dst)
    demo = open(os.path.join(seed, "demo.py")).read().replace(wt, "__SEED_REPO__")
    open(os.path.join(dst, "demo.py"), "w").write(demo)
    json.dump(meta, open(os.path.join(dst, "meta.json"), "w"), indent=1)
    print(sid, "confirmed=" + str(meta["confirmed"]), "suite:", meta["suite_with_patch"], "| demo with/without:", rc_with, rc_without)
    for p, r in results.items():
        print("  ", p, r["verdict"], r["wall_s"], "s", r["detail"][:2])


if __name__ == "__main__":
    main()
