#!/usr/bin/env python3
"""Prints the table of DESIGN.md section 13.5 from props/*.py (BOUNDS) and a timings file (optional:
lines `Cxx quick=<s> thorough=<s>`).  usage: python3-vt tools/bounds_table.py [timings.txt]"""
import importlib, os, sys
HERE = os.path.dirname(os.path.dirname(os.path.abspath(__file__)))
sys.path.insert(0, HERE)


def fmt(sec):
    sec = float(sec)
    return f"{sec:.0f} s" if sec < 90 else f"~{sec / 60:.0f} min"


def main():
    t = {}
    if len(sys.argv) > 1:
        for line in open(sys.argv[1]):
            p = line.split()
            if p:
                t[p[0]] = dict(x.split("=") for x in p[1:])
    print("| id | level | quick | thorough |")
    print("|---|---|---|---|")
    for pid in ["C01", "C02", "C03", "C04", "C05", "C06", "C07", "C08", "C09", "C10", "C11", "C12", "C13", "C15", "C16", "C19"]:
        m = importlib.import_module("props." + pid.lower())
        q, th = m.BOUNDS["quick"], m.BOUNDS["thorough"]
        tq = f" ({fmt(t[pid]['quick'])})" if pid in t and "quick" in t[pid] else ""
        tt = f" ({fmt(t[pid]['thorough'])})" if pid in t and "thorough" in t[pid] else ""
        print(f"| {pid} | {m.LEVEL} | {q}{tq} | {th}{tt} |")


if __name__ == "__main__":
    main()
