#!/usr/bin/env python3
"""Mutation self-test: applies each catalogued single-site change to a scratch copy of the repository,
(optionally) confirms the pinned test-suite still passes, runs the named checks and expects exit 1
(a replayed VIOLATION).  Usage: tools/mutants.py [name-substring ...] [--suite] [--tier quick]"""
import json, os, shutil, subprocess, sys, tempfile
HERE = os.path.dirname(os.path.dirname(os.path.abspath(__file__)))


def main():
    args = [a for a in sys.argv[1:] if not a.startswith("--")]
    suite = "--suite" in sys.argv
    tier = "thorough" if "--thorough" in sys.argv else "quick"
    cat = json.load(open(os.path.join(HERE, "mutants", "catalogue.json")))
    rows = []
    for m in cat:
        if args and not any(a in m["name"] for a in args):
            continue
        work = tempfile.mkdtemp(prefix="mutant-")
        try:
            repo = os.path.join(work, "repo")
            shutil.copytree("/repo", repo, ignore=shutil.ignore_patterns(".git", "__pycache__", ".pytest_cache"))
            p = os.path.join(repo, m["file"])
            s = open(p).read()
            if s.count(m["old"]) != 1:
                rows.append((m["name"], "STALE (pattern count %d)" % s.count(m["old"])))
                continue
            open(p, "w").write(s.replace(m["old"], m["new"]))
            note = ""
            if suite:
                r = subprocess.run(["/venv/bin/python", "-m", "pytest", "-q", "-p", "no:cacheprovider", "--continue-on-collection-errors"],
                                   cwd=repo, capture_output=True, text=True)
                tail = r.stdout.strip().splitlines()[-1] if r.stdout.strip() else ""
                note = " suite: " + tail
            for prop in m["properties"]:
                env = dict(os.environ, VERIF_REPO=repo)
                r = subprocess.run([os.path.join(HERE, "check"), prop, "--tier", m.get("tier", tier)], cwd=HERE, env=env, capture_output=True, text=True)
                viol = [l for l in r.stdout.splitlines() if l.startswith("VIOLATION")]
                inc = [l for l in r.stdout.splitlines() if l.startswith("INCONCLUSIVE")]
                verdict = {0: "MISSED", 1: "caught", 2: "inconclusive"}.get(r.returncode, str(r.returncode))
                detail = ""
                if r.returncode == 1:
                    detail = [l for l in r.stdout.splitlines() if l.strip().startswith("job=")][:1]
                elif inc:
                    detail = inc[:1]
                rows.append((m["name"], f"{prop}: {verdict}{note} {detail}"))
        finally:
            shutil.rmtree(work, ignore_errors=True)
    for r in rows:
        print(*r)
    bad = [r for r in rows if "caught" not in r[1]]
    return 1 if bad else 0


if __name__ == "__main__":
    sys.exit(main())
