#!/bin/sh
# Development aid: runs the interpreter over a battery of Python constructs (tools/feature_probe.py); each function
# must end "done" with no violation, i.e. the construct is inside the modelled subset and behaves as CPython does.
cd "$(dirname "$0")/.." || exit 2
rc=0
for f in $(grep -o "^def f_[a-z_]*" tools/feature_probe.py | cut -c5-); do
  r=$(timeout 120 python3-vt -m vsx.dev tools/feature_probe.py "$f" 2>&1 | python3 -c "
import sys,json
s=sys.stdin.read()
try:
    i=s.index('{'); j=s.rindex('funcs:'); d=json.loads(s[i:j]); print(d['status'],(d['note'] or '')[:200],[(v['label'],v.get('message')) for v in d['violations']][:3])
except Exception as e: print('ERR',s[-300:].replace('\n',' '))")
  echo "$f: $r"
  case "$r" in "done  []") ;; *) rc=1 ;; esac
done
exit $rc
