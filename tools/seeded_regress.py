#!/usr/bin/env python3
"""Re-run the quick check of the targeted property against every stored seeded change (seeded/<id>/patch.diff applied to
a scratch copy of /repo) and expect exit 1.  usage: tools/seeded_regress.py [id-substring ...]"""
import glob, json, os, shutil, subprocess, sys, tempfile, time
HERE = os.path.dirname(os.path.dirname(os.path.abspath(__file__)))


def main():
    want = [a for a in sys.argv[1:] if not a.startswith("--")]
    rows = []
    for d in sorted(glob.glob(os.path.join(HERE, "seeded", "*"))):
        sid = os.path.basename(d)
        if want and not any(w in sid for w in want):
            continue
        meta = json.load(open(os.path.join(d, "meta.json")))
        props = list(meta["checks"].keys())
        work = tempfile.mkdtemp(prefix="seedreg-")
        try:
            repo = os.path.join(work, "repo")
            shutil.copytree("/repo", repo, ignore=shutil.ignore_patterns(".git", "__pycache__", ".pytest_cache"))
            r = subprocess.run(["patch", "-p1", "--quiet", "-i", os.path.join(d, "patch.diff")], cwd=repo, capture_output=True, text=True)
            if r.returncode != 0:
                rows.append((sid, "PATCH-FAILED", r.stdout[-200:]))
                continue
            for p in props:
                if meta["checks"][p]["verdict"] != "caught":
                    continue
                t0 = time.time()
                r = subprocess.run([os.path.join(HERE, "check"), p, "--tier", "quick"], cwd=HERE, env=dict(os.environ, VERIF_REPO=repo), capture_output=True, text=True)
                rows.append((sid, p, {0: "MISSED", 1: "caught", 2: "inconclusive"}.get(r.returncode, r.returncode), round(time.time() - t0)))
        finally:
            shutil.rmtree(work, ignore_errors=True)
    for r in rows:
        print(*r)
    return 1 if any("caught" not in str(r[2]) for r in rows) else 0


if __name__ == "__main__":
    sys.exit(main())
