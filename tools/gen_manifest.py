#!/usr/bin/env python3
"""Regenerates MANIFEST.json from props/*.py + the static texts below (keeps the file valid at all times)."""
import importlib, json, os, sys
HERE = os.path.dirname(os.path.dirname(os.path.abspath(__file__)))
sys.path.insert(0, HERE)

LEVEL_TEXT = {
 "C07": ("model_checking", "Every obligation is decided by z3 over the entire documented integer range (n symbolic in [0,253^4)) and over all byte strings of each length up to the bound, by symbolic execution of the real encode_number/decode_number source; a sat answer is replayed on CPython before it is reported. Full-domain for the encode side, bounded by length for the decode side.", "§7 C07"),
 "C08": ("model_checking", "Bounded model checking of the real encode_string/decode_string source: per length L all 256^L strings are one symbolic input and the per-byte branches are if-converted, so z3 decides each positional obligation for every string of that length.", "§7 C08"),
 "C10": ("model_checking", "Bounded model checking of the real interleave/deinterleave/flip_msb/swap_multiples source, per data length; the multiple of swap_multiples is an unbounded symbolic integer.", "§7 C10"),
 "C11": ("model_checking", "One SMT query family over the whole three-byte challenge field against an independently written truncating-remainder oracle; full-domain, no sampling.", "§7 C11"),
 "C12": ("model_checking", "Every random draw is a solver variable under randrange's contract, so the three generate() functions are decided for their whole outcome space at once; int(x/7) is handled through a QF_BVFP side lemma proved on every run.", "§7 C12"),
 "C13": ("model_checking", "Inductive step from the state after an arbitrary (symbolic, unbounded) number of requests + periodicity lemma + bounded model checking of every operation string through the public API with symbolic start values.", "§7 C13"),
}
LEVEL_TEXT.update({
 "C01": ("model_checking", "Bounded model checking of generator output + real EoWriter/EoReader per corpus class: structure value-forked, all leaf values symbolic over their full range; z3 decides field-by-field equality after serialize->deserialize, exact consumption and byte_size. The programs quantifier is a fixed, enumerated spec corpus (stated as a bound).", "§7 C01, §5"),
 "C02": ("translation_validation", "Per corpus program the generator's output is validated against an independent reading of the same XML (O-xml): z3 decides byte-for-byte equality of the generated serializer's output and the reference wire image for all objects within the value bounds, on the core tree, on five twin trees that spell one boolean default explicitly, and on a mechanically generated corpus of all ordered pairs of 36 instruction templates in 5 contexts (all 5,226 in the thorough tier, a VERIF_SEED-chosen sample in the quick tier).", "§7 C02, §5, §6, §13.4"),
 "C03": ("model_checking", "Per corpus class and input length n all 256^n byte strings are one symbolic input; the generated deserializer (real EoReader) is compared field by field with O-xml's reading rules over the independent O-reader model; only the predicted ValueError may escape. Programs: core corpus plus the generated pair corpus (§13.4).", "§7 C03, §13.4"),
 "C15": ("fault_enumeration", "Bounded model checking with injected faults: every call index of a failing writer/reader is enumerated by value-forking, objects range over valid and single-violation values, byte strings are symbolic, entry mode symbolic; z3 decides mode-after == mode-before on every returning and raising path.", "§7 C15"),
 "C16": ("model_checking", "Every single declaration-violating change (site value-forked over all fields, depths, elements and cases; over-limit integers symbolic and unbounded) applied to a symbolic valid object; z3 decides that the generated serializer cannot return normally.", "§7 C16"),
 "C19": ("model_checking", "Symbolic field values: double serialization identical for constructed and deserialized instances, unaffected by caller-side mutation of constructor arguments (heap aliasing modelled); AttributeError on assignment decided by executing setattr in the interpreter's descriptor semantics on every explored path and confirmed natively.", "§7 C19"),
 "C04": ("model_checking", "Bounded model checking of the real EoWriter and EoReader together: write-op kinds are enumerated, every value is symbolic over its whole range (integers, arbitrary code points, raw bytes); z3 decides that each read returns the written value (strings: their cp1252 image) and that the output is consumed exactly.", "§7 C04"),
 "C05": ("model_checking", "One operation from every reachable reader state (reached through the public API by a canonical prefix with symbolic parameters) over symbolic data, compared by z3 with an independent functional model of chunked reading; plus bounded model checking of operation sequences from the constructor.", "§7 C05"),
 "C06": ("model_checking", "Bounded model checking of sanitising writer + chunked reader: chunk shapes enumerated, field values and read plans symbolic.", "§7 C06"),
 "C09": ("model_checking", "Inductive step over an arbitrary writer pre-state (symbolic prefix and mode): one add_* call with symbolic arguments (unbounded integers, arbitrary strings, symbolic length/padded) against a reference image written from the protocol documentation.", "§7 C09"),
})
NOTE = {
 "C01": "Trusted: z3, vsx interpreter, cp1252 table stub, the IntEnum/ProtocolEnumMeta model (C14 is outside this technique), the corpus as the only programs explored, the stated validity predicate.",
 "C02": "Trusted: O-xml (props/oxml.py, harness/vh_refsem.py, harness/vh_wire.py) as the reading of eo-protocol semantics; z3; vsx; enum model; corpus as the programs explored.",
 "C03": "Trusted: O-xml reading rules + O-reader model; z3; vsx; enum model. Decoded loop counts are explored up to the stated cap; inputs longer than the bound are outside.",
 "C15": "Trusted: z3, vsx (try/finally, exception propagation, property setters); faults are exceptions raised by public reader/writer methods.",
 "C16": "Trusted: z3, vsx, O-xml's classification of the mutated object as invalid (checked as a second obligation).",
 "C19": "Trusted: vsx's model of Python descriptors/properties and of list/tuple aliasing (each path's model is replayed natively with the same harness).",
 "C04": "Trusted: z3, vsx interpreter, the cp1252 table stub (regenerated from the codec and compared with the repo interpreter on every run). Sequences longer than the bound are outside the solver-checked claim.",
 "C05": "Trusted: z3, vsx interpreter, the O-reader model as the reading of the documented chunked-reading rules; the canonical-prefix reachability argument (DESIGN.md).",
 "C06": "Trusted: z3, vsx interpreter, cp1252 table stub.",
 "C09": "Trusted: z3, vsx interpreter, cp1252 table stub, the reference image functions in harness/vh_wire.py.",
 "C07": "Trusted: z3, the vsx interpreter's rendering of Python int/bytes semantics (cross-checked per run by native replay of one solver model per explored path).",
 "C08": "Trusted: z3, vsx interpreter (bytearray cell semantics, in-place reverse), native replay as cross-check. Strings longer than the bound are outside the claim.",
 "C10": "Trusted: z3 (non-linear integer arithmetic for x mod m with symbolic m), vsx interpreter; exact integer encoding of & and ^ on bytes. Data longer than the bound is outside the claim; pipelines use concrete multiples.",
 "C11": "Trusted: z3 NIA, the oracle's reading of the published formula (C truncating remainder).",
 "C12": "Trusted: z3, cvc5/z3 for the floating-point lemma, the randrange contract stub.",
 "C13": "Trusted: z3, vsx interpreter's object model (attributes, properties, inheritance).",
}
TECH = {
 "C01": "bounded symbolic execution of generated code + real reader/writer, z3; corpus enumerated",
 "C02": "translation validation: generated serializer vs independent XML semantics (O-xml), equivalence decided by z3",
 "C03": "bounded symbolic execution over all byte strings per length, differential against O-xml/O-reader, z3",
 "C15": "bounded symbolic execution with injected faults (call index value-forked), z3",
 "C16": "bounded symbolic execution over single-violation objects, z3",
 "C19": "symbolic execution with modelled heap aliasing + descriptor semantics, z3, native confirmation",
 "C04": "bounded symbolic execution of writer+reader + z3, op kinds enumerated, values symbolic",
 "C05": "inductive step from canonical reachable states + BMC, differential against O-reader model, z3",
 "C06": "bounded symbolic execution of sanitising writer + chunked reader + z3, read plans value-forked",
 "C09": "inductive step by symbolic execution + z3 against reference wire image",
 "C07": "symbolic execution of the real source (AST interpreter) + z3 LIA, full-domain",
 "C08": "bounded symbolic execution with if-conversion + z3, per length",
 "C10": "bounded symbolic execution + z3 (NIA for symbolic multiple), per length",
 "C11": "symbolic execution + z3 NIA over the whole challenge field, differential against oracle",
 "C12": "symbolic execution with random draws as solver variables + z3; QF_BVFP lemma (cvc5)",
 "C13": "inductive step + bounded model checking via symbolic execution + z3",
}
NA = {
 "C14": "Behaviour lives in CPython's enum machinery (EnumMeta.__call__, _value2member_map_, int.__new__): version-specific stdlib/C code that cannot be encoded for a solver; CrossHair on the real code produced a counterexample that does not reproduce natively.",
 "C17": "Input is an XML document and the outcome is raise-vs-return of ElementTree/str/dict manipulating code; no bounded arithmetic or byte-level state to hand a solver, catalogue x placement is plain enumeration of concrete runs.",
 "C18": "Quantifies over hash seeds, directory enumeration orders and fresh interpreter processes: process-level configuration and file I/O, not encodable.",
 "C20": "A statement about the import system and sys.modules; nothing to hand a solver.",
}
PENDING = "check under construction in this technique family; not claimed until it lands (see DESIGN.md section 7)"

def main():
    checks = []
    claimed = []
    for pid in sorted(LEVEL_TEXT):
        if not os.path.exists(os.path.join(HERE, "props", pid.lower() + ".py")):
            continue
        cat, text, ref = LEVEL_TEXT[pid]
        claimed.append(pid)
        checks.append({
            "property_id": pid,
            "quick_cmd": f"./check {pid} --tier quick",
            "thorough_cmd": f"./check {pid} --tier thorough",
            "evidence_file": f"evidence/{pid}.json",
            "replay_cmd_template": f"./check {pid} --replay {{path}}",
            "engine": "vsx",
            "level_claimed": {"category": cat, "text": text, "design_ref": ref},
            "level_note": NOTE[pid],
            "technique": TECH[pid],
        })
    na = []
    for i in range(1, 21):
        pid = "C%02d" % i
        if pid in claimed:
            continue
        na.append({"property_id": pid, "reason": NA.get(pid, PENDING)})
    man = {
        "version": 1,
        "setup_cmd": "./setup.sh",
        "hooks": {"guard": "EOLIB_PYTHON_VERIF", "enable": "no hooks are needed: the interpreter reads the source, replays use the public API",
                  "baseline_off_cmd": "cd /repo && /venv/bin/python -m pytest -ra -q -p no:cacheprovider --timeout=900 --continue-on-collection-errors",
                  "source_commits": [], "add_only": True},
        "engines": [{"name": "vsx", "path": "vsx/", "serves_properties": claimed,
                     "kind_free_text": "bounded symbolic executor for the repository's Python source (AST interpreter with predicated execution and value forking) deciding obligations with z3; counterexamples replayed on CPython"},
                    {"name": "cvc5-second-opinion", "path": "vsx/second.py", "serves_properties": ["C07", "C08", "C11", "C12", "C13"],
                     "kind_free_text": "thorough tier: every discharged obligation is dumped as SMT-LIB2 and re-decided by cvc5; also proves the QF_BVFP lemmas behind int(a/k), math.floor, math.ceil"},
                    {"name": "crosshair", "path": "crosshair/", "serves_properties": ["C07", "C13"],
                     "kind_free_text": "thorough tier: CrossHair contracts over the real functions as a second symbolic engine; disagreement with vsx is an error"}],
        "checks": checks,
        "notes": "All checks: exit 0 = every obligation unsat within the declared bounds; exit 1 = counterexample reproduced natively (VIOLATION line); exit 2 = inconclusive. VERIF_REPO overrides /repo (used for mutants).",
        "not_applicable": na,
    }
    with open(os.path.join(HERE, "MANIFEST.json"), "w") as f:
        json.dump(man, f, indent=1)
    print("claimed:", claimed)

if __name__ == "__main__":
    main()
