#!/bin/sh
# usage: tools/seed_demo.sh <seed-id> <path-to-a-repo-checkout>   (runs seeded/<id>/demo.py against that checkout)
set -e
id="$1"; repo="$2"
tmp="$(mktemp /tmp/seed-demo-XXXXXX.py)"
trap 'rm -f "$tmp"' EXIT
sed "s#__SEED_REPO__#$repo#g" "$(dirname "$0")/../seeded/$id/demo.py" > "$tmp"
cd "$repo" && PYTHONPATH="$repo/src" /venv/bin/python "$tmp"
