"""Value domain of the vsx symbolic interpreter.

Concrete Python ints / bools / None / str / tuple / list / dict are used as they are.
Symbolic scalars wrap z3 terms.  Byte strings and symbolic text have a concrete length and
symbolic cells.  Everything else is an interpreter-level object (Obj, Cls, Func ...).
"""
import z3


class Unsupported(Exception):
    """Construct outside the interpreter's subset -> the run is inconclusive (exit 2)."""


class Inconclusive(BaseException):
    """Solver said unknown / a declared bound was exhausted -> exit 2."""


class PathAbort(BaseException):
    """Current path is infeasible or an assumption failed: silently drop it."""


class DeadBranch(BaseException):
    """The guard of the predicated region being executed was decided false."""


class PyExc(Exception):
    """An interpreted Python exception in flight."""

    def __init__(self, obj):
        Exception.__init__(self)
        self.obj = obj          # Obj instance of an exception class

    @property
    def cls(self):
        return self.obj.cls


class _NotSet:
    def __repr__(self):
        return "<NOTSET>"


NOTSET = _NotSet()


class SymInt:
    """w: proven bit-width bound (value known to lie in [0, 2^w)) or None.  Only set where the range is
    enforced by construction (cells of byte strings, codec table outputs)."""
    __slots__ = ("e", "w")

    def __init__(self, e, w=None):
        self.e = e
        self.w = w

    def __repr__(self):
        return f"SymInt({self.e})"


class SymBool:
    __slots__ = ("e",)

    def __init__(self, e):
        self.e = e

    def __repr__(self):
        return f"SymBool({self.e})"


class FloatQuot:
    """Lazy result of `int / int` (true division); only int(...) of it is supported."""
    __slots__ = ("n", "d")

    def __init__(self, n, d):
        self.n = n
        self.d = d


class Bytes:
    """bytes / bytearray / memoryview: concrete length, int-like cells (0..255 enforced on store).
    A memoryview is modelled as an immutable copy that remembers the object it was taken from (`base`)."""
    __slots__ = ("items", "mutable", "serial", "kind", "base")

    def __init__(self, items, mutable, serial=0, kind=None, base=None):
        self.items = list(items)
        self.mutable = mutable
        self.serial = serial
        self.kind = kind or ("bytearray" if mutable else "bytes")
        self.base = base

    def __repr__(self):
        return f"Bytes<{self.kind}>({self.items})"


class Str:
    """Text with concrete length and (possibly symbolic) code points."""
    __slots__ = ("cps",)

    def __init__(self, cps):
        self.cps = list(cps)

    def __repr__(self):
        return f"Str({self.cps})"


class OpaqueStr:
    """A string whose content is irrelevant (error messages, reprs)."""
    __slots__ = ()

    def __repr__(self):
        return "<opaque str>"


OPAQUE = OpaqueStr()


class PList:
    """Python list with identity + creation serial (so structural mutation can be journaled/guarded)."""
    __slots__ = ("items", "serial")

    def __init__(self, items, serial=0):
        self.items = list(items)
        self.serial = serial

    def __repr__(self):
        return f"PList({self.items})"


class SliceObj:
    """slice(a, b, c) as a value: the attributes mirror ast.Slice (lower / upper / step) but hold values, not nodes"""
    __slots__ = ("lower", "upper", "step")

    def __init__(self, lower, upper, step):
        self.lower, self.upper, self.step = lower, upper, step


class PIter:
    """iterator over an already materialised list of items (iter(), generators run eagerly)"""
    __slots__ = ("items", "pos")

    def __init__(self, items):
        self.items = list(items)
        self.pos = 0


class PDict:
    """dict: concrete hashable keys live in `d`; keys with symbolic content (text, ints) live in `sym` as [key, value]
    pairs and are found by (forking) equality, which is what hashing + == amounts to"""
    __slots__ = ("d", "serial", "sym")

    def __init__(self, d=None, serial=0):
        self.d = dict(d or {})
        self.serial = serial
        self.sym = []


class CondDef:
    """A local first bound under a guard strictly stronger than its frame's."""
    __slots__ = ("v", "g")

    def __init__(self, v, g):
        self.v = v
        self.g = g


class Func:
    __slots__ = ("node", "globs", "cls", "qual", "closure", "module", "name", "defaults", "kwdefaults")

    def __init__(self, node, globs, module, qual, closure=None):
        self.node = node
        self.globs = globs
        self.module = module
        self.qual = qual
        self.cls = None
        self.closure = closure
        self.name = getattr(node, "name", "<lambda>")
        self.defaults = None
        self.kwdefaults = None


class Cls:
    def __init__(self, name, bases, ns, meta=None, module=None, qual=None):
        self.name = name
        self.bases = bases
        self.ns = ns
        self.meta = meta
        self.module = module
        self.qual = qual or name
        self.members = None      # for IntEnum models: ordinal -> EnumVal
        self.is_enum = False
        self.mro = [self]
        for b in bases:
            if isinstance(b, Cls):
                for c in b.mro:
                    if c not in self.mro:
                        self.mro.append(c)

    def lookup(self, attr):
        for c in self.mro:
            if attr in c.ns:
                return c.ns[attr]
        return NOTSET

    def issub(self, other):
        return other in self.mro

    def __repr__(self):
        return f"<Cls {self.qual}>"


class Obj:
    __slots__ = ("cls", "d", "serial")

    def __init__(self, cls, serial=0):
        self.cls = cls
        self.d = {}
        self.serial = serial

    def __repr__(self):
        return f"<Obj {self.cls.qual}>"


class EnumVal:
    """Model of an IntEnum member / ProtocolEnumMeta 'unrecognized' instance: an int tagged with its class."""
    __slots__ = ("cls", "v", "name")

    def __init__(self, cls, v, name=None):
        self.cls = cls
        self.v = v
        self.name = name

    def __repr__(self):
        return f"<Enum {self.cls.name}:{self.v}>"


class Prop:
    __slots__ = ("fget", "fset")

    def __init__(self, fget, fset=None):
        self.fget = fget
        self.fset = fset


class StaticM:
    __slots__ = ("f",)

    def __init__(self, f):
        self.f = f


class ClassM:
    __slots__ = ("f",)

    def __init__(self, f):
        self.f = f


class Bound:
    __slots__ = ("f", "self_")

    def __init__(self, f, self_):
        self.f = f
        self.self_ = self_


class Native:
    __slots__ = ("fn", "name")

    def __init__(self, fn, name=""):
        self.fn = fn
        self.name = name

    def __repr__(self):
        return f"<Native {self.name}>"


class Module:
    def __init__(self, name, path=None, is_pkg=False):
        self.name = name
        self.ns = {}
        self.path = path
        self.is_pkg = is_pkg

    def __repr__(self):
        return f"<Module {self.name}>"


class SuperProxy:
    __slots__ = ("cls", "self_")

    def __init__(self, cls, self_):
        self.cls = cls
        self.self_ = self_


# ----------------------------------------------------------------------------- z3 helpers

def is_symbolic(v):
    return isinstance(v, (SymInt, SymBool)) or (isinstance(v, EnumVal) and isinstance(v.v, (SymInt, SymBool)))


def intish(v):
    """int-like but not bool-like."""
    return (isinstance(v, int) and not isinstance(v, bool)) or isinstance(v, SymInt)


def boolish(v):
    return isinstance(v, (bool, SymBool))


def numeric(v):
    return isinstance(v, (int, SymInt, SymBool))


def zi(v):
    """value -> z3 Int term"""
    if isinstance(v, SymInt):
        return v.e
    if isinstance(v, bool):
        return z3.IntVal(int(v))
    if isinstance(v, int):
        return z3.IntVal(v)
    if isinstance(v, SymBool):
        return z3.If(v.e, z3.IntVal(1), z3.IntVal(0))
    if isinstance(v, EnumVal):
        return zi(v.v)
    raise Unsupported(f"not an integer value: {type(v).__name__}")


def zb(v):
    if isinstance(v, SymBool):
        return v.e
    if isinstance(v, bool):
        return z3.BoolVal(v)
    raise Unsupported(f"not a boolean value: {type(v).__name__}")


def mk_int(e, w=None):
    if z3.is_int_value(e):
        return e.as_long()
    return SymInt(e, w)


def width_of(v):
    """bit-width bound of an int-like value, or None."""
    if isinstance(v, bool):
        return 1
    if isinstance(v, int):
        return v.bit_length() if v >= 0 else None
    if isinstance(v, SymInt):
        return v.w
    if isinstance(v, SymBool):
        return 1
    return None


def as_byte(v):
    """Tag an int-like value that has just passed the 0..255 check."""
    if isinstance(v, SymInt) and (v.w is None or v.w > 8):
        return SymInt(v.e, 8)
    return v


def mk_bool(e):
    if z3.is_true(e):
        return True
    if z3.is_false(e):
        return False
    return SymBool(e)


def simp_bool(e):
    return mk_bool(z3.simplify(e))


def simp_int(e):
    return mk_int(z3.simplify(e))


# guards are True / False / z3 BoolRef
def g_and(a, b):
    if a is True:
        return b
    if b is True:
        return a
    if a is False or b is False:
        return False
    if a is b or a.eq(b):
        return a
    return z3.And(a, b)


def g_or(a, b):
    if a is False:
        return b
    if b is False:
        return a
    if a is True or b is True:
        return True
    if a is b or a.eq(b):
        return a
    return z3.Or(a, b)


def g_not(a):
    if a is True:
        return False
    if a is False:
        return True
    if z3.is_not(a):
        return a.arg(0)
    return z3.Not(a)


_CONJ_MEMO = {}
_NO_GMINUS = bool(__import__("os").environ.get("VSX_NO_GMINUS"))


def _remember_conj(term, parts):
    if len(_CONJ_MEMO) > 200000:
        _CONJ_MEMO.clear()
    _CONJ_MEMO[term.get_id()] = (term, parts)       # the term is kept alive so that its id stays its own


def g_conj(a):
    """conjuncts of a guard (And flattened, Not(Or) opened by de Morgan); memoised per term"""
    hit = _CONJ_MEMO.get(a.get_id())
    if hit is not None:
        return hit[1]
    out = tuple(_g_conj(a))
    _remember_conj(a, out)
    return out


def _g_conj(a):
    out = []
    stack = [a]
    while stack:
        t = stack.pop()
        if z3.is_and(t):
            stack.extend(reversed(t.children()))
        elif z3.is_not(t) and z3.is_or(t.arg(0)):
            stack.extend(g_not(c) for c in reversed(t.arg(0).children()))
        elif z3.is_true(t):
            continue
        else:
            out.append(t)
    return out


def g_disj(a):
    """disjuncts of a guard (Or flattened, Not(And) opened by de Morgan)"""
    out = []
    stack = [a]
    while stack:
        t = stack.pop()
        if z3.is_or(t):
            stack.extend(reversed(t.children()))
        elif z3.is_not(t) and z3.is_and(t.arg(0)):
            stack.extend(g_not(c) for c in reversed(t.arg(0).children()))
        elif z3.is_false(t):
            continue
        else:
            out.append(t)
    return out


def g_minus(g0, e):
    """g0 and not e, kept as a flat conjunction: each disjunct of e loses the conjuncts it shares with g0
    (a and not(a and c) == a and not c).  Escape guards are of that shape (the guard in force when the return /
    break happened, strengthened by its condition), so the guard after k guarded returns stays a list of k literals
    instead of a nest of negated conjunctions - which keeps queries decomposable by variable."""
    if e is False:
        return g0
    if e is True or g0 is False:
        return False
    if _NO_GMINUS:
        return g_norm(g_and(g0, g_not(e)))
    G = [] if g0 is True else list(g_conj(g0))     # a copy: the memoised list must not grow
    ids = set(t.get_id() for t in G)
    for ek in g_disj(e):
        if z3.is_true(ek):
            return False
        rest = [x for x in g_conj(ek) if x.get_id() not in ids]
        if any(z3.is_false(x) or g_not(x).get_id() in ids for x in rest):
            continue                                   # this escape cannot have happened under g0
        if not rest:
            return False                               # g0 implies the escape
        n = g_not(rest[0]) if len(rest) == 1 else z3.Not(z3.And(*rest))
        for t in g_conj(n):
            if t.get_id() not in ids:
                G.append(t)
                ids.add(t.get_id())
    if not G:
        return True
    if len(G) == 1:
        return G[0]
    r = z3.And(*G)
    _remember_conj(r, tuple(G))
    return r


def g_expr(a):
    if a is True:
        return z3.BoolVal(True)
    if a is False:
        return z3.BoolVal(False)
    return a


def g_norm(a):
    """Simplify a guard and map constant terms back to Python constants."""
    if a is True or a is False:
        return a
    s = z3.simplify(a)
    if z3.is_true(s):
        return True
    if z3.is_false(s):
        return False
    return s
