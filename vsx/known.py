"""Known findings: committed list of genuine, unrepaired defects identified by the failing input.
A finding's `match` is a Python expression over the names of the harness' integer inputs
(arithmetic, comparisons, and/or/not).  It is evaluated concretely on a model and translated to z3 so that the
solver can be asked for a violation that is NOT one of the listed findings."""
import ast
import json
import os

import z3


def load(verif_dir, prop_id):
    p = os.path.join(verif_dir, "known_findings.json")
    if not os.path.exists(p):
        return []
    return [k for k in json.load(open(p)).get("findings", []) if k.get("status") == "known" and k.get("property") == prop_id]


def applies(k, job, label):
    if k.get("label") and k["label"] != label:
        return False
    if k.get("job") and k["job"] != job:
        return False
    return True


def matches(k, inputs):
    expr = k.get("match")
    if not expr:
        return True
    try:
        return bool(eval(expr, {"__builtins__": {}}, dict(inputs)))     # noqa: S307 - committed file
    except Exception:     # noqa: BLE001
        return False


def to_z3(expr, env):
    """env: name -> z3 Int term.  Returns a z3 Bool or None if the expression cannot be translated."""
    try:
        return _tr(ast.parse(expr, mode="eval").body, env)
    except Exception:     # noqa: BLE001
        return None


def _tr(n, env):
    if isinstance(n, ast.BoolOp):
        vals = [_tr(v, env) for v in n.values]
        return z3.And(*vals) if isinstance(n.op, ast.And) else z3.Or(*vals)
    if isinstance(n, ast.UnaryOp):
        if isinstance(n.op, ast.Not):
            return z3.Not(_tr(n.operand, env))
        if isinstance(n.op, ast.USub):
            return -_tr(n.operand, env)
    if isinstance(n, ast.Compare):
        left = _tr(n.left, env)
        out = []
        for op, r in zip(n.ops, n.comparators):
            right = _tr(r, env)
            out.append({ast.Eq: left == right, ast.NotEq: left != right, ast.Lt: left < right, ast.LtE: left <= right,
                        ast.Gt: left > right, ast.GtE: left >= right}[type(op)])
            left = right
        return z3.And(*out) if len(out) > 1 else out[0]
    if isinstance(n, ast.BinOp):
        a, b = _tr(n.left, env), _tr(n.right, env)
        return {ast.Add: lambda: a + b, ast.Sub: lambda: a - b, ast.Mult: lambda: a * b, ast.FloorDiv: lambda: a / b,
                ast.Mod: lambda: a % b}[type(n.op)]()
    if isinstance(n, ast.Name):
        return env[n.id]
    if isinstance(n, ast.Constant) and isinstance(n.value, (int, bool)):
        return z3.IntVal(int(n.value)) if not isinstance(n.value, bool) else z3.BoolVal(n.value)
    raise ValueError("untranslatable")
