"""vsx: bounded symbolic AST interpreter for the Python subset used by eolib and its generated code.

Execution model
---------------
* One *path* = one run of the harness function from its start, steered by a decision trace
  (DART-style re-execution).  Branch decisions and value choices that cannot be merged are recorded
  in the trace; alternatives go to the work list.
* Inside a path, `if` statements on symbolic conditions are executed *predicated*: both sides run
  under a guard and every scalar side effect becomes ite(guard, new, old).  `return`, `break` and
  `continue` under a guard are tracked as escape conditions.  Whatever cannot be merged (a raise,
  a structural mutation of an older object, a non-scalar store, a value needed concretely) first
  *commits* the guard: the path forks on "guard holds" and proceeds with the guard in the path
  condition (or abandons the dead region).
* The path condition lives in an incremental z3 solver (push/pop per path).
"""
import ast
import hashlib
import os
import time

import z3

from .values import *   # noqa: F401,F403


def local_names(node):
    """names bound in a function body (its parameters aside): they are locals of the whole body"""
    r = getattr(node, "_vsx_locals", None)
    if r is None:
        r = set()
        declared = set()
        if not isinstance(node, ast.Lambda):
            stack = list(node.body)
            while stack:
                n = stack.pop()
                if isinstance(n, (ast.FunctionDef, ast.AsyncFunctionDef, ast.ClassDef)):
                    r.add(n.name)
                    continue
                if isinstance(n, ast.Lambda):
                    continue
                if isinstance(n, (ast.ListComp, ast.SetComp, ast.DictComp, ast.GeneratorExp)):
                    # comprehension targets live in their own scope; walrus targets inside do leak, but are rare
                    stack.append(n.generators[0].iter)
                    continue
                if isinstance(n, (ast.Global, ast.Nonlocal)):
                    declared.update(n.names)
                elif isinstance(n, ast.Name) and isinstance(n.ctx, (ast.Store, ast.Del)):
                    r.add(n.id)
                elif isinstance(n, (ast.Import, ast.ImportFrom)):
                    for a in n.names:
                        r.add((a.asname or a.name).split(".")[0])
                elif isinstance(n, ast.ExceptHandler) and n.name:
                    r.add(n.name)
                stack.extend(ast.iter_child_nodes(n))
        r -= declared
        node._vsx_locals = r
    return r


def is_generator(node):
    """does this function body contain a yield of its own (not one of a nested function)?"""
    r = getattr(node, "_vsx_is_gen", None)
    if r is None:
        r = False
        if not isinstance(node, ast.Lambda):
            stack = list(node.body)
            while stack:
                n = stack.pop()
                if isinstance(n, (ast.Yield, ast.YieldFrom)):
                    r = True
                    break
                if isinstance(n, (ast.FunctionDef, ast.AsyncFunctionDef, ast.Lambda, ast.ClassDef)):
                    continue
                stack.extend(ast.iter_child_nodes(n))
        node._vsx_is_gen = r
    return r


_DEBUG_STACK = [] if os.environ.get("VSX_SLICE_DEBUG") else None


class Frame:
    __slots__ = ("locals", "globs", "func", "entry_g", "ret", "ret_g", "loops", "closure", "cls", "globals_declared", "nonlocals_declared",
                 "yields")

    def __init__(self, locals_, globs, func=None, entry_g=True, closure=None, cls=None):
        self.locals = locals_
        self.globs = globs
        self.func = func
        self.entry_g = entry_g
        self.ret = NOTSET
        self.ret_g = False
        self.loops = []
        self.closure = closure
        self.cls = cls
        self.globals_declared = None
        self.nonlocals_declared = None
        self.yields = None


class Loop:
    __slots__ = ("brk", "cnt")

    def __init__(self):
        self.brk = False
        self.cnt = False


class Stats:
    FIELDS = ("paths", "queries", "cache_hits", "solver_s", "forks", "obligations", "discharged", "trivial",
              "merges", "commits", "value_forks", "aborted", "sliced")

    def __init__(self):
        for f in self.FIELDS:
            setattr(self, f, 0)
        self.solver_s = 0.0

    def as_dict(self):
        return {f: (round(getattr(self, f), 3) if f == "solver_s" else getattr(self, f)) for f in self.FIELDS}

    def add(self, other):
        for f in self.FIELDS:
            setattr(self, f, getattr(self, f) + (other[f] if isinstance(other, dict) else getattr(other, f)))


class Engine:
    LOOP_BOUND = 4096
    CALL_DEPTH = 200

    def __init__(self, roots, solver_timeout_ms=120000, value_cap=600, merge=True):
        self.roots = list(roots)
        self.modules = {}
        self.solver_timeout_ms = solver_timeout_ms
        self.solver = z3.Solver()
        self.solver.set("timeout", solver_timeout_ms)
        self.stats = Stats()
        self.merge_enabled = merge
        self.value_cap = value_cap
        self.funcs_used = {}
        self.sources = {}
        # per-path state
        self.trace = []
        self.tpos = 0
        self.work = []
        self.g = True
        self.frame = None
        self.depth = 0
        self.serial = 0
        self.region_serial = 0
        self.inputs = {}
        self.input_order = []
        self.concrete_inputs = None       # dict name -> value: all-concrete mode
        self.randcalls = 0
        self.fp_uses = []                 # (divisor, lo, hi) float-division lemma uses
        self.fp_range = (-4096, 4096)
        self.observations = []
        self.reached = {}
        self.violations = []
        self.assumptions_used = set()
        self.fault_plan = None
        self.builtins = {}
        self.methods = {}
        self.stubs = {}
        self.hooks = {}                   # harness-level hooks
        self.lazy_pkgs = set()            # packages whose __init__ is only run on demand
        self.range_cap = None
        self.active_exc = []
        self.load_ranges = []             # serial ranges of objects created while modules were being loaded
        self.load_depth = 0
        self.journal = []                 # undo actions restoring load-time (module-level) state at the next path
        self.journaled = set()
        self.known = []
        self.known_hits = []
        self.job_name = ""
        self.second_solver = False
        self.second_budget = 0
        self.second = {}
        self.qcache = {}
        self.slicing = not os.environ.get("VSX_NO_SLICE")
        self._vars_memo = {}
        self._vars_keep = []
        self._part_cache = None
        self._glit_cache = None
        self.pc_hash = 0
        self.pc_refs = []
        from . import builtins as _b
        _b.install(self)

    # ------------------------------------------------------------------ solver
    def _check(self, *extra, need_model=False):
        """Satisfiability of path-condition + extra.  Results are memoised on (fingerprint of the assertion
        stack, ids of the extra terms): re-execution replays the same prefix on every path, so most
        queries of a path were already answered on an earlier one."""
        key = (self.pc_hash, tuple(e.get_id() for e in extra))
        if not need_model:
            hit = self.qcache.get(key)
            if hit is not None:
                self.stats.cache_hits += 1
                return hit[0]
        t = time.time()
        self.stats.queries += 1
        if extra and not need_model and self.slicing:
            # cone of influence: a query that is unsatisfiable together with the assertions that share variables
            # with it (transitively) is unsatisfiable with all of them; anything else falls through to the full query
            rs = self._check_sliced(extra)
            if rs is not None:
                self.stats.solver_s += time.time() - t
                if len(self.qcache) < 2000000:
                    self.qcache[key] = (rs, extra)
                return rs
        t1 = time.time()
        r = self.solver.check(*extra)
        if os.environ.get("VSX_SLICE_DEBUG") == "4" and time.time() - t1 > 0.05:
            import sys as _s
            _s.stderr.write("FULL %.2fs (sliced part %.2fs) %s\n" % (time.time() - t1, t1 - t, " | ".join(str(e)[:200].replace("\n", " ") for e in extra)[:500]))
        self.stats.solver_s += time.time() - t
        if r == z3.unknown:
            raise Inconclusive(f"solver returned unknown ({self.solver.reason_unknown()})")
        res = r == z3.sat
        if len(self.qcache) < 2000000:
            self.qcache[key] = (res, extra)      # keeping the terms alive keeps their ids unique
        return res

    SLICE_MIN = int(os.environ.get("VSX_SLICE_MIN", "40"))      # assertion-stack size from which slicing is tried

    def term_vars(self, e):
        """ids of the uninterpreted constants of a term (memoised per term id; terms are kept alive by pc_refs / qcache)"""
        memo = self._vars_memo
        i = e.get_id()
        r = memo.get(i)
        if r is not None:
            return r
        out = set()
        seen = set()
        stack = [e]
        while stack:
            t = stack.pop()
            ti = t.get_id()
            if ti in seen:
                continue
            seen.add(ti)
            sub = memo.get(ti)
            if sub is not None:
                out |= sub
                continue
            if z3.is_const(t):
                if t.decl().kind() == z3.Z3_OP_UNINTERPRETED:
                    out.add(ti)
                continue
            stack.extend(t.children())
        r = frozenset(out)
        memo[i] = r
        self._vars_keep.append(e)
        return r

    def _partition(self):
        """variable-connectivity partition of the current assertion stack (memoised per stack fingerprint):
        -> (assertions, per-assertion variable sets, union-find parent map over variable ids)"""
        pc = self._part_cache
        if pc is not None and pc[0] == self.pc_hash:
            return pc[1]
        asserts = list(self.solver.assertions())
        avars = [self.term_vars(a) for a in asserts]
        parent = {}

        def find(x):
            while parent.setdefault(x, x) != x:
                parent[x] = parent[parent[x]]
                x = parent[x]
            return x
        for vs in avars:
            it = iter(vs)
            first = next(it, None)
            if first is None:
                continue
            r = find(first)
            for v in it:
                rv = find(v)
                if rv != r:
                    parent[rv] = r
        part = (asserts, avars, parent)
        self._part_cache = (self.pc_hash, part)
        return part

    def _check_sliced(self, extra):
        """Exact decomposition of sat(assertions + extra) along variable-disjoint components:
        the conjunction is satisfiable iff every component (its assertions plus the conjuncts of `extra` that
        touch it) is satisfiable on its own.  Returns True / False, or None when there is nothing to gain
        (a single component) or a sub-query came back unknown - the caller then asks the full query."""
        if len(self.solver.assertions()) < self.SLICE_MIN:
            return None
        asserts, avars, parent0 = self._partition()
        # conjuncts of the query
        conj = []
        stack = list(extra)
        while stack:
            t = stack.pop()
            if z3.is_and(t):
                stack.extend(t.children())
            elif z3.is_true(t):
                continue
            elif z3.is_false(t):
                return False
            elif z3.is_not(t) and z3.is_or(t.arg(0)):
                stack.extend(z3.Not(c) for c in t.arg(0).children())       # de Morgan: one conjunct per disjunct
            elif z3.is_not(t) and z3.is_not(t.arg(0)):
                stack.append(t.arg(0).arg(0))
            else:
                conj.append(t)
        cvars = [self.term_vars(c) for c in conj]
        parent = dict(parent0)

        def find(x):
            while parent.setdefault(x, x) != x:
                parent[x] = parent[parent[x]]
                x = parent[x]
            return x
        for vs in cvars:
            it = iter(vs)
            first = next(it, None)
            if first is None:
                continue
            r = find(first)
            for v in it:
                rv = find(v)
                if rv != r:
                    parent[rv] = r
        groups = {}
        for k, vs in enumerate(avars):
            if vs:
                groups.setdefault(find(next(iter(vs))), [[], []])[0].append(k)
            else:
                groups.setdefault(None, [[], []])[0].append(k)
        for k, vs in enumerate(cvars):
            if vs:
                groups.setdefault(find(next(iter(vs))), [[], []])[1].append(k)
            else:
                groups.setdefault(None, [[], []])[1].append(k)
        if len(groups) <= 1:
            if os.environ.get("VSX_SLICE_DEBUG") == "3":
                import sys as _s
                _s.stderr.write("ONEGROUP conj=%d stack=%s\n" % (len(conj), "/".join(_DEBUG_STACK or [])))
                if os.environ.get("VSX_SLICE_FULL"):
                    for c in conj:
                        _s.stderr.write("   CONJ %s\n" % " ".join(str(c).split()))
            return None
        if os.environ.get("VSX_SLICE_DEBUG"):
            import sys as _s
            _s.stderr.write("slice n=%d groups=%d conj=%d\n" % (len(asserts), len(groups), len(conj)))
        # components that the query touches first: they are the ones that can turn out unsatisfiable
        order = sorted(groups.items(), key=lambda kv: (0 if kv[1][1] else 1))
        for root, (aidx, cidx) in order:
            key = ("slice", frozenset(asserts[k].get_id() for k in aidx), frozenset(conj[k].get_id() for k in cidx))
            hit = self.qcache.get(key)
            if hit is None:
                s2 = z3.SimpleSolver()
                s2.set("timeout", min(self.solver_timeout_ms, 30000))
                for k in aidx:
                    s2.add(asserts[k])
                for k in cidx:
                    s2.add(conj[k])
                self.stats.sliced += 1
                r = s2.check()
                if r == z3.unknown:
                    if os.environ.get("VSX_SLICE_DEBUG"):
                        import sys as _s
                        _s.stderr.write("SUBUNKNOWN %s\n" % s2.reason_unknown())
                    return None
                hit = (r == z3.sat, [conj[k] for k in cidx])
                if len(self.qcache) < 2000000:
                    self.qcache[key] = hit
            if not hit[0]:
                return False
        return True

    def add_pc(self, e):
        self.solver.add(e)
        # 128-bit running fingerprint of the assertion stack (collision-safe key for the query memo)
        self.pc_hash = hashlib.blake2b(b"%d:%d" % (self.pc_hash, e.get_id()), digest_size=16).digest()
        self.pc_hash = int.from_bytes(self.pc_hash, "little")
        self.pc_refs.append(e)

    def feasible(self, g):
        if g is True:
            return True
        if g is False:
            return False
        return self._check(g)

    def add(self, e):
        if e is True:
            return
        if e is False:
            raise PathAbort()
        self.add_pc(e)

    def _fork(self, cond):
        """Decide a z3 Bool under the current path condition; may fork the path."""
        if self.concrete_inputs is not None:
            raise Unsupported("symbolic decision in concrete mode")
        if self.tpos < len(self.trace):
            d = self.trace[self.tpos]
            if d == "T" or d == "F":
                # forced decision: implied by the path condition, nothing to assert
                self.tpos += 1
                return d == "T"
            if not isinstance(d, bool):
                raise Unsupported("trace desynchronised (expected decision)")
            self.tpos += 1
            self.add_pc(cond if d else z3.Not(cond))
            return d
        t_ok = self._check(cond)
        if not t_ok:
            self.trace.append("F")
            self.tpos += 1
            return False
        f_ok = self._check(z3.Not(cond))
        if not f_ok:
            self.trace.append("T")
            self.tpos += 1
            return True
        self.stats.forks += 1
        self.work.append(self.trace + [False])
        self.trace.append(True)
        self.tpos += 1
        self.add_pc(cond)
        return True

    def commit(self):
        """Make the current guard part of the path condition (forking), or leave the dead region."""
        g = self.g
        if g is True:
            return
        if g is False:
            raise DeadBranch()
        self.stats.commits += 1
        if self._fork(g):
            self.g = True
            return
        self.g = False
        raise DeadBranch()

    def decide(self, cond):
        """Truth of a (possibly symbolic) condition as a concrete bool on this path."""
        if isinstance(cond, bool):
            return cond
        c = simp_bool(cond.e)
        if isinstance(c, bool):
            return c
        self.commit()
        return self._fork(c.e)

    def guard_literals(self):
        """ids of the conjuncts of the current guard (memoised per guard term)"""
        g = self.g
        gi = g.get_id()
        c = self._glit_cache
        if c is not None and c[0] == gi:
            return c[1]
        ids = set(t.get_id() for t in g_conj(g))
        self._glit_cache = (gi, ids, g)
        return ids

    def peel(self, e):
        """Resolve the outer If-nodes of a merged value whose conditions the current guard decides *syntactically*
        (every conjunct of the condition is a conjunct of the guard, or one of them is negated there).  A variable
        assigned under a guard reads as ite(guard, new, old); inside the region that guard holds, so the read is
        `new` - no solver needed.  Purely an optimisation: the result is equal to e under the guard."""
        if self.g is True or self.g is False or os.environ.get("VSX_NO_PEEL"):
            return e
        lits = None
        while z3.is_app_of(e, z3.Z3_OP_ITE):
            if lits is None:
                lits = self.guard_literals()
            c = e.arg(0)
            parts = g_conj(c)
            if all(t.get_id() in lits for t in parts):
                e = e.arg(1)
            elif any(g_not(t).get_id() in lits for t in parts):
                e = e.arg(2)
            else:
                break
        return e

    def concretize(self, v):
        """A concrete int for v on this path (value-forking)."""
        if isinstance(v, bool):
            return int(v)
        if isinstance(v, int):
            return v
        if isinstance(v, EnumVal):
            return self.concretize(v.v)
        if isinstance(v, SymBool):
            return int(self.decide(v))
        if not isinstance(v, SymInt):
            raise Unsupported(f"concretize {type(v).__name__}")
        e = z3.simplify(self.peel(v.e))
        if z3.is_int_value(e):
            return e.as_long()
        g = self.g
        if g is False:
            raise DeadBranch()
        if g is not True:
            # predicated code often makes a value look symbolic although the guard determines it
            if not self._check(g, need_model=True):
                self.g = False
                raise DeadBranch()
            val = self.solver.model().eval(e, model_completion=True).as_long()
            if not self._check(g, e != val):
                return val
        self.commit()
        if self.tpos < len(self.trace):
            ent = self.trace[self.tpos]
            if isinstance(ent, (bool, str)):
                raise Unsupported("trace desynchronised (expected value)")
            if ent[0] == "val":
                self.tpos += 1
                self.add_pc(e == ent[1])
                return ent[1]
            excl = list(ent[1])
            if len(excl) > self.value_cap:
                raise Inconclusive(f"value-fork cap {self.value_cap} exceeded")
            if not self._check(*[e != x for x in excl], need_model=True):
                raise PathAbort()
            val = self.solver.model().eval(e, model_completion=True).as_long()
            self.trace = self.trace[: self.tpos]
            self.work.append(self.trace + [("pend", excl + [val])])
            self.trace.append(("val", val))
            self.tpos += 1
            self.add_pc(e == val)
            self.stats.value_forks += 1
            return val
        if not self._check(need_model=True):
            raise PathAbort()
        val = self.solver.model().eval(e, model_completion=True).as_long()
        # is it the only value?
        if self._check(e != val):
            self.work.append(self.trace + [("pend", [val])])
            self.stats.value_forks += 1
        self.trace.append(("val", val))
        self.tpos += 1
        self.add_pc(e == val)
        return val

    # ------------------------------------------------------------------ heap helpers
    def new_serial(self):
        self.serial += 1
        return self.serial

    def mk_bytes(self, items, mutable, kind=None, base=None):
        return Bytes(items, mutable, self.new_serial(), kind, base)

    def mk_list(self, items):
        return PList(items, self.new_serial())

    def mk_dict(self, d=None):
        return PDict(d, self.new_serial())

    def mk_obj(self, cls):
        return Obj(cls, self.new_serial())

    def structural(self, o):
        """About to mutate o's structure: must not be predicated unless o was born in this region."""
        if self.load_ranges and self.persistent(o):
            self.journal_obj(o)
        if self.g is True:
            return
        if getattr(o, "serial", 0) > self.region_serial:
            return
        self.commit()

    def ite(self, c, x, y):
        """c: z3 Bool. Merge two scalar values or return NOTSET when they cannot be merged."""
        if x is y:
            return x
        if boolish(x) and boolish(y):
            if isinstance(x, bool) and isinstance(y, bool) and x == y:
                return x
            return mk_bool(z3.If(c, zb(x), zb(y)))
        if intish(x) and intish(y):
            if isinstance(x, int) and isinstance(y, int) and x == y:
                return x
            if isinstance(x, SymInt) and isinstance(y, SymInt) and x.e.eq(y.e):
                return x
            wx, wy = width_of(x), width_of(y)
            return mk_int(z3.If(c, zi(x), zi(y)), max(wx, wy) if wx is not None and wy is not None else None)
        if isinstance(x, EnumVal) and isinstance(y, EnumVal) and x.cls is y.cls:
            v = self.ite(c, x.v, y.v)
            if v is NOTSET:
                return NOTSET
            if isinstance(v, int) and x.cls.members and v in x.cls.members:
                return x.cls.members[v]
            return EnumVal(x.cls, v)
        if x is None and y is None:
            return None
        if isinstance(x, str) and isinstance(y, str) and x == y:
            return x
        return NOTSET

    def merged(self, new, old):
        """Value to store at a location holding `old` when `new` is written under the current guard."""
        g = self.g
        if g is True or old is NOTSET:
            return new
        if g is False:
            return old
        r = self.ite(g, new, old)
        if r is NOTSET:
            self.commit()
            return new
        self.stats.merges += 1
        return r

    # ------------------------------------------------------------------ exceptions
    def exc_class(self, name):
        return self.builtins[name]

    def make_exc(self, clsname, msg=""):
        c = self.exc_class(clsname) if isinstance(clsname, str) else clsname
        o = self.mk_obj(c)
        o.d["args"] = (msg,)
        return PyExc(o)

    def throw(self, clsname, msg=""):
        """Raise an interpreted exception from native code (commits the guard first)."""
        self.commit()
        raise self.make_exc(clsname, msg)

    def throw_if(self, cond, clsname, msg=""):
        """Raise when cond (bool / SymBool) holds under the current guard (forks when both can happen)."""
        if cond is False or self.g is False:
            return
        if cond is True:
            self.throw(clsname, msg)
        c = simp_bool(cond.e)
        if c is False:
            return
        if c is True:
            self.throw(clsname, msg)
        g = self.g
        full = c.e if g is True else z3.And(g, c.e)
        if self._fork(full):
            self.g = True
            raise self.make_exc(clsname, msg)

    def require(self, cond, what):
        """Encoding side condition: if it can fail on this path the construct is outside the subset."""
        if cond is True:
            return
        if cond is False:
            raise Unsupported(what)
        g = self.g
        if g is False:
            return
        bad = z3.Not(cond.e) if g is True else z3.And(g, z3.Not(cond.e))
        if self._check(bad):
            raise Unsupported(what)

    def check_byte(self, v):
        if isinstance(v, bool):
            return
        if isinstance(v, int):
            if not 0 <= v <= 255:
                self.throw("ValueError", "byte must be in range(0, 256)")
            return
        if isinstance(v, SymBool):
            return
        if isinstance(v, EnumVal):
            return self.check_byte(v.v)
        if isinstance(v, SymInt):
            if v.w is not None and v.w <= 8:
                return
            self.throw_if(SymBool(z3.Or(v.e < 0, v.e > 255)), "ValueError", "byte must be in range(0, 256)")
            return
        self.throw("TypeError", "an integer is required")

    # ------------------------------------------------------------------ module loading
    def find_module(self, name):
        for root in self.roots:
            p = os.path.join(root, *name.split("."))
            for cand, is_pkg in ((os.path.join(p, "__init__.py"), True), (p + ".py", False)):
                if os.path.exists(cand):
                    return cand, is_pkg
        return None, False

    def load(self, name):
        if name in self.modules:
            return self.modules[name]
        if name in self.stubs:
            m = self.stubs[name](self)
            self.modules[name] = m
            return m
        path, is_pkg = self.find_module(name)
        if path is None:
            raise Unsupported(f"cannot import module {name}")
        if "." in name:
            self.load(name.rsplit(".", 1)[0])
        m = Module(name, path, is_pkg)
        self.modules[name] = m
        m.ns["__name__"] = name
        m.lazy = bool(is_pkg and name in self.lazy_pkgs)
        if not m.lazy:
            self.exec_module(m)
        if "." in name:
            parent = self.modules[name.rsplit(".", 1)[0]]
            parent.ns.setdefault(name.rsplit(".", 1)[1], m)
        return m

    def exec_module(self, m):
        m.lazy = False
        src = open(m.path, encoding="utf-8").read()
        self.sources[m.name] = (m.path, hashlib.sha256(src.encode()).hexdigest())
        tree = ast.parse(src, m.path)
        fr = Frame(m.ns, m.ns)
        saved = self.frame, self.g
        self.frame = fr
        self.g = True
        start = self.serial
        self.load_depth += 1
        try:
            self.exec_block(tree.body)
        finally:
            self.frame, self.g = saved
            self.load_depth -= 1
            if self.load_depth == 0 and self.serial > start:
                self.load_ranges.append((start, self.serial))

    def persistent(self, o):
        """was o created while a module was being loaded (i.e. is it module-level state)?"""
        sr = getattr(o, "serial", 0)
        if self.load_depth > 0 or not sr:
            return False
        for a, b in self.load_ranges:
            if a < sr <= b:
                return True
        return False

    def journal_obj(self, o):
        """before the first mutation of module-level state on a path: remember how to restore it, so that every path
        starts from the state a fresh process would have"""
        if id(o) in self.journaled:
            return
        self.journaled.add(id(o))
        if isinstance(o, (PList, Bytes)):
            snap = list(o.items)
            self.journal.append(lambda: o.items.__setitem__(slice(None), snap))
        elif isinstance(o, PDict):
            snap = dict(o.d)
            snap_sym = [list(p_) for p_ in o.sym]
            self.journal.append(lambda: (o.d.clear(), o.d.update(snap), o.sym.__setitem__(slice(None), snap_sym)))
        elif isinstance(o, Obj):
            snap = dict(o.d)
            self.journal.append(lambda: (o.d.clear(), o.d.update(snap)))
        elif isinstance(o, Cls):
            snap = dict(o.ns)
            self.journal.append(lambda: (o.ns.clear(), o.ns.update(snap)))

    def rollback_module_state(self):
        for undo in reversed(self.journal):
            undo()
        self.journal = []
        self.journaled = set()

    def load_source(self, name, src, path="<harness>"):
        m = Module(name, path, False)
        self.modules[name] = m
        m.ns["__name__"] = name
        self.sources[name] = (path, hashlib.sha256(src.encode()).hexdigest())
        tree = ast.parse(src, path)
        fr = Frame(m.ns, m.ns)
        saved = self.frame, self.g
        self.frame = fr
        self.g = True
        start = self.serial
        self.load_depth += 1
        try:
            self.exec_block(tree.body)
        finally:
            self.frame, self.g = saved
            self.load_depth -= 1
            if self.load_depth == 0 and self.serial > start:
                self.load_ranges.append((start, self.serial))
        return m

    # ------------------------------------------------------------------ statements
    def exec_block(self, body):
        for st in body:
            if self.g is False:
                return
            m = getattr(self, "x_" + type(st).__name__, None)
            if m is None:
                raise Unsupported(f"statement {type(st).__name__} (line {getattr(st, 'lineno', '?')})")
            m(st)

    def x_Expr(self, st):
        self.ev(st.value)

    def x_Pass(self, st):
        pass

    def x_Global(self, st):
        fr = self.frame
        if not hasattr(fr, "globals_declared") or fr.globals_declared is None:
            fr.globals_declared = set()
        fr.globals_declared.update(st.names)

    def x_Nonlocal(self, st):
        fr = self.frame
        if fr.nonlocals_declared is None:
            fr.nonlocals_declared = set()
        fr.nonlocals_declared.update(st.names)

    def x_Assert(self, st):
        c = self.truth(self.ev(st.test))
        self.throw_if(self.b_not(c), "AssertionError", "assert")

    def x_Delete(self, st):
        for t in st.targets:
            if isinstance(t, ast.Name):
                self.commit()
                fr = self.frame
                if t.id not in fr.locals:
                    self.throw("NameError", t.id)
                del fr.locals[t.id]
            elif isinstance(t, ast.Subscript):
                o = self.ev(t.value)
                if isinstance(o, PDict):
                    k = self.hashable(self.ev(t.slice))
                    if k not in o.d:
                        self.throw("KeyError", str(k))
                    self.structural(o)
                    del o.d[k]
                elif isinstance(o, PList) or (isinstance(o, Bytes) and o.mutable):
                    if isinstance(t.slice, ast.Slice):
                        rng = self.slice_range(t.slice, len(o.items))
                        self.structural(o)
                        for i in sorted(rng, reverse=True):
                            del o.items[i]
                    else:
                        i = self.index_of(self.ev(t.slice), len(o.items))
                        self.structural(o)
                        del o.items[i]
                else:
                    self.throw("TypeError", "object doesn't support item deletion")
            elif isinstance(t, ast.Attribute):
                o = self.ev(t.value)
                if isinstance(o, Obj) and t.attr in o.d:
                    self.structural(o)
                    del o.d[t.attr]
                else:
                    self.throw("AttributeError", t.attr)
            else:
                raise Unsupported("del target")

    def x_Import(self, st):
        for a in st.names:
            m = self.load(a.name)
            if a.asname:
                self.store_name(a.asname, m)
            else:
                top = a.name.split(".")[0]
                self.store_name(top, self.load(top))

    def x_ImportFrom(self, st):
        name = st.module or ""
        if st.level:
            cur = self.frame.globs["__name__"]
            curm = self.modules.get(cur)
            parts = cur.split(".")
            base = parts if (curm is not None and curm.is_pkg) else parts[:-1]
            if st.level > 1:
                base = base[: len(base) - (st.level - 1)]
            name = ".".join(base + ([name] if name else []))
        m = self.load(name)
        for a in st.names:
            if getattr(m, "lazy", False) and (a.name == "*" or (a.name not in m.ns and self.find_module(name + "." + a.name)[0] is None)):
                self.exec_module(m)
            if a.name == "*":
                allnames = m.ns.get("__all__")
                if allnames is not None:
                    keys = list(allnames.items) if isinstance(allnames, PList) else list(allnames)
                else:
                    keys = [k for k in m.ns if not k.startswith("_")]
                for k in keys:
                    self.store_name(k, m.ns[k])
            else:
                if a.name in m.ns:
                    self.store_name(a.asname or a.name, m.ns[a.name])
                else:
                    sub, _ = self.find_module(name + "." + a.name)
                    if sub is None and (name + "." + a.name) not in self.stubs:
                        if name in self.stubs:
                            raise Unsupported(f"{name}.{a.name} is not modelled")
                        self.throw("ImportError", f"cannot import name {a.name} from {name}")
                    self.store_name(a.asname or a.name, self.load(name + "." + a.name))

    def x_FunctionDef(self, st):
        fr = self.frame
        f = Func(st, fr.globs, fr.globs.get("__name__"), st.name,
                 closure=fr if (fr.func is not None or (fr.cls is not None and fr.closure is not None)) else None)
        a = st.args
        f.defaults = [self.ev(d) for d in a.defaults]
        f.kwdefaults = [self.ev(d) if d is not None else NOTSET for d in a.kw_defaults]
        v = f
        for d in reversed(st.decorator_list):
            dn = ast.unparse(d)
            if dn == "staticmethod":
                v = StaticM(v)
            elif dn == "classmethod":
                v = ClassM(v)
            elif dn in ("property", "abstractproperty"):
                v = Prop(v if isinstance(v, Func) else v.f)
            elif dn.endswith(".setter"):
                base = self.load_name(dn.rsplit(".", 1)[0])
                if not isinstance(base, Prop):
                    raise Unsupported(f"setter on non-property {dn}")
                v = Prop(base.fget, v)
            elif dn == "abstractmethod":
                pass
            else:
                dec = self.ev(d)
                if not isinstance(dec, (Native, Func, Bound)):
                    raise Unsupported(f"decorator {dn}")
                v = self.call(dec, [v], {})
        self.store_name(st.name, v)

    def x_ClassDef(self, st):
        if st.decorator_list:
            raise Unsupported("class decorator")
        bases = [self.ev(b) for b in st.bases]
        meta = None
        for kw in st.keywords:
            if kw.arg == "metaclass":
                meta = self.ev(kw.value)
            else:
                raise Unsupported("class keyword")
        fr = self.frame
        outer_qual = fr.cls.qual + "." if fr.cls is not None else ""
        ns = {}
        c = Cls(st.name, [b for b in bases if b is not None], ns, meta, fr.globs.get("__name__"), outer_qual + st.name)
        body_frame = Frame(ns, fr.globs, func=None, entry_g=self.g,
                           closure=fr if (fr.func is not None or (fr.cls is not None and fr.closure is not None)) else None, cls=c)
        self.frame = body_frame
        try:
            self.exec_block(st.body)
        finally:
            self.frame = fr
        for k, v in list(ns.items()):
            f = v.f if isinstance(v, (StaticM, ClassM)) else v
            if isinstance(f, Func) and f.cls is None:
                f.cls = c
                f.qual = c.qual + "." + f.name
            if isinstance(v, Prop):
                for pf in (v.fget, v.fset):
                    if isinstance(pf, Func) and pf.cls is None:
                        pf.cls = c
                        pf.qual = c.qual + "." + pf.name
        if any(isinstance(b, Cls) and b.is_enum for b in c.mro[1:]) or any(getattr(b, "name", "") == "IntEnum" for b in c.mro[1:]):
            c.is_enum = True
            c.members = {}
            for k, v in list(ns.items()):
                if isinstance(v, int) and not isinstance(v, bool) and not k.startswith("_"):
                    if v in c.members:      # alias
                        ns[k] = c.members[v]
                    else:
                        evv = EnumVal(c, v, k)
                        ns[k] = evv
                        c.members[v] = evv
        self.store_name(st.name, c)

    def x_Return(self, st):
        v = self.ev(st.value) if st.value is not None else None
        fr = self.frame
        if fr.func is None:
            raise Unsupported("return outside function")
        g = self.g
        if g is False:
            return
        if fr.ret_g is False:
            fr.ret = v
            fr.ret_g = g
        else:
            r = self.ite(g, v, fr.ret) if g is not True else v
            if r is NOTSET:
                self.commit()
                r = v
                g = True
            fr.ret = r
            fr.ret_g = g_or(fr.ret_g, g)
        self.g = False

    def x_Break(self, st):
        lp = self.frame.loops[-1]
        lp.brk = g_or(lp.brk, self.g)
        self.g = False

    def x_Continue(self, st):
        lp = self.frame.loops[-1]
        lp.cnt = g_or(lp.cnt, self.g)
        self.g = False

    def x_Assign(self, st):
        v = self.ev(st.value)
        for t in st.targets:
            self.assign(t, v)

    def x_AnnAssign(self, st):
        if st.value is not None:
            self.assign(st.target, self.ev(st.value))

    def x_AugAssign(self, st):
        t = st.target
        if isinstance(t, ast.Name):
            cur = self.load_name(t.id)
            if self.inplace(st.op, cur, st.value):
                return
            self.store_name(t.id, self.binop(st.op, cur, self.ev(st.value)))
        elif isinstance(t, ast.Attribute):
            o = self.ev(t.value)
            cur = self.getattr(o, t.attr)
            if self.inplace(st.op, cur, st.value):
                return
            self.setattr(o, t.attr, self.binop(st.op, cur, self.ev(st.value)))
        elif isinstance(t, ast.Subscript):
            o = self.ev(t.value)
            if isinstance(t.slice, ast.Slice):
                raise Unsupported("augmented slice assignment")
            idx = self.ev(t.slice)
            cur = self.getitem(o, idx)
            self.setitem(o, idx, self.binop(st.op, cur, self.ev(st.value)))
        else:
            raise Unsupported("augassign target")

    def inplace(self, op, cur, value_node):
        """`x += y` / `x *= n` mutate bytearrays and lists in place (aliases see the change)"""
        if isinstance(cur, PList) or (isinstance(cur, Bytes) and cur.mutable):
            if isinstance(op, ast.Add):
                v = self.ev(value_node)
                m = self.methods[("list" if isinstance(cur, PList) else "bytes", "extend")]
                m(self, cur, v)
                return True
            if isinstance(op, ast.Mult):
                n = self.concretize(self.ev(value_node))
                self.structural(cur)
                cur.items[:] = cur.items * n
                return True
        return False

    def assign(self, t, v):
        if isinstance(t, ast.Name):
            self.store_name(t.id, v)
        elif isinstance(t, ast.Attribute):
            self.setattr(self.ev(t.value), t.attr, v)
        elif isinstance(t, ast.Subscript):
            o = self.ev(t.value)
            if isinstance(t.slice, ast.Slice):
                self.setslice(o, t.slice, v)
            else:
                self.setitem(o, self.ev(t.slice), v)
        elif isinstance(t, (ast.Tuple, ast.List)):
            vs = self.iterate(v)
            stars = [i for i, tt in enumerate(t.elts) if isinstance(tt, ast.Starred)]
            if stars:
                if len(stars) > 1 or len(vs) < len(t.elts) - 1:
                    self.throw("ValueError", "not enough values to unpack")
                i = stars[0]
                tail = len(t.elts) - i - 1
                mid = vs[i:len(vs) - tail]
                for tt, vv in zip(t.elts[:i], vs[:i]):
                    self.assign(tt, vv)
                self.assign(t.elts[i].value, self.mk_list(mid))
                for tt, vv in zip(t.elts[i + 1:], vs[len(vs) - tail:]):
                    self.assign(tt, vv)
                return
            if len(vs) != len(t.elts):
                self.throw("ValueError", "unpack length mismatch")
            for tt, vv in zip(t.elts, vs):
                self.assign(tt, vv)
        else:
            raise Unsupported(f"assignment target {type(t).__name__}")

    # names
    def load_name(self, name):
        fr = self.frame
        if fr.globals_declared and name in fr.globals_declared and name in fr.globs:
            return fr.globs[name]
        if fr.func is not None and name in local_names(fr.func.node) \
                and not (fr.globals_declared and name in fr.globals_declared) and not (fr.nonlocals_declared and name in fr.nonlocals_declared):
            # a name assigned somewhere in the function is local throughout it (no fall-back to enclosing scopes);
            # comprehension frames of the same function are part of it
            f = fr
            found = False
            while f is not None and f.func is fr.func:
                if name in f.locals:
                    found = True
                    break
                f = f.closure
            if not found:
                self.throw("UnboundLocalError", f"cannot access local variable '{name}' where it is not associated with a value")
        f = fr
        while f is not None:
            if name in f.locals:
                v = f.locals[name]
                if isinstance(v, CondDef):
                    v = self.read_conddef(name, v)
                if isinstance(v, SymInt) and self.g is not True and z3.is_app_of(v.e, z3.Z3_OP_ITE):
                    pe = self.peel(v.e)
                    if pe is not v.e:
                        if z3.is_int_value(pe):
                            return pe.as_long()
                        return SymInt(pe, v.w)
                return v
            f = f.closure
            while f is not None and f.cls is not None:    # class bodies are not enclosing scopes
                f = f.closure
        if name in fr.globs:
            return fr.globs[name]
        if name in self.builtins:
            return self.builtins[name]
        self.throw("NameError", f"name '{name}' is not defined")

    def read_conddef(self, name, cd):
        g = self.g
        if g is cd.g or (g is not True and g is not False and cd.g is not True and g.eq(cd.g)):
            return cd.v
        if g is False:
            return cd.v
        need = g_and(g, g_not(cd.g))
        if need is False or not self.feasible(need):
            return cd.v
        # the name may be unbound on some path reaching here
        self.throw_if(SymBool(g_expr(g_not(cd.g))), "UnboundLocalError", name)
        return cd.v

    def store_name(self, name, v):
        fr = self.frame
        if fr.globals_declared and name in fr.globals_declared:
            # module state mutated at run time: keep it exact by refusing to predicate it
            self.commit()
            if self.load_depth == 0:
                globs = fr.globs
                had = name in globs
                prev = globs.get(name)
                key = ("glob", id(globs), name)
                if key not in self.journaled:
                    self.journaled.add(key)
                    self.journal.append((lambda g=globs, n=name, h=had, p=prev: g.__setitem__(n, p) if h else g.pop(n, None)))
            fr.globs[name] = v
            return
        if fr.nonlocals_declared and name in fr.nonlocals_declared:
            f = fr.closure
            while f is not None and name not in f.locals:
                f = f.closure
            if f is None:
                raise Unsupported("nonlocal name not found")
            self.commit()
            f.locals[name] = v
            return
        old = fr.locals.get(name, NOTSET)
        g = self.g
        if g is True:
            fr.locals[name] = v
            return
        if g is False:
            return
        if old is NOTSET:
            if g is fr.entry_g:
                fr.locals[name] = v
            else:
                fr.locals[name] = CondDef(v, g)
            return
        if isinstance(old, CondDef):
            if old.g is g:
                fr.locals[name] = CondDef(v, g)
                return
            r = self.ite(g, v, old.v)
            if r is NOTSET:
                self.commit()
                fr.locals[name] = v
            else:
                fr.locals[name] = CondDef(r, g_or(old.g, g))
            return
        fr.locals[name] = self.merged(v, old)

    # ------------------------------------------------------------------ control flow
    def esc(self):
        fr = self.frame
        e = fr.ret_g
        if fr.loops:
            lp = fr.loops[-1]
            e = g_or(e, g_or(lp.brk, lp.cnt))
        return e

    def revive(self, g, was_dead):
        """Continue under guard g after a predicated region; if a DeadBranch was swallowed inside and g
        itself is no longer satisfiable, the enclosing region is dead as well."""
        if was_dead and g is not True and (g is False or not self.feasible(g)):
            self.g = False
            raise DeadBranch()
        if g is not True and g is not False and g is not self.g:
            # a stronger guard takes effect from here on (an escape - return / break / continue - happened under a
            # condition): every object that exists now is OLDER than this region, so mutating it must be merged or
            # committed, never applied outright.  (The enclosing construct restores region_serial when it ends.)
            self.region_serial = self.serial
        self.g = g

    def after_region(self, g0, esc_before, was_dead=False):
        e = self.esc()
        if e is esc_before or e is False:
            g = g0
        else:
            g = g_minus(g0, e)
        self.revive(g, was_dead)

    def run_guarded(self, g, body_fn):
        """Run body_fn() under guard g; swallow a DeadBranch of that region.  Returns (value, dead)."""
        saved_region = self.region_serial
        self.g = g
        if g is not True:
            self.region_serial = self.serial
        try:
            return body_fn(), False
        except DeadBranch:
            return NOTSET, True
        finally:
            self.region_serial = saved_region

    def split(self, c):
        """For a symbolic condition c (SymBool) under the current guard: (gt, ge, t_ok, e_ok)."""
        g0 = self.g
        gt = g_and(g0, c.e)
        ge = g_and(g0, g_not(c.e))
        t_ok = self.feasible(gt)
        e_ok = self.feasible(ge) if t_ok else True
        return gt, ge, t_ok, e_ok

    def x_If(self, st):
        c = self.truth(self.ev(st.test))
        if not isinstance(c, bool):
            c = simp_bool(c.e)
        if isinstance(c, bool):
            return self.exec_block(st.body if c else st.orelse)
        if not self.merge_enabled:
            return self.exec_block(st.body if self.decide(c) else st.orelse)
        g0 = self.g
        esc0 = self.esc()
        gt, ge, t_ok, e_ok = self.split(c)
        dead = False
        if t_ok and not e_ok:
            _, dead = self.run_guarded(g0, lambda: self.exec_block(st.body))
        elif e_ok and not t_ok:
            _, dead = self.run_guarded(g0, lambda: self.exec_block(st.orelse))
        else:
            n0 = self.stats.commits
            _, d1 = self.run_guarded(gt, lambda: self.exec_block(st.body))
            d2 = False
            if st.orelse and not (self.stats.commits != n0 and self.g is True and not d1):
                _, d2 = self.run_guarded(ge, lambda: self.exec_block(st.orelse))
            dead = d1 or d2
        self.after_region(g0, esc0, dead)

    def x_While(self, st):
        fr = self.frame
        lp = Loop()
        fr.loops.append(lp)
        g0 = self.g
        ret0 = fr.ret_g
        n = 0
        dead = False
        try:
            while True:
                if lp.brk is False and fr.ret_g is ret0:
                    g = g0
                else:
                    g = g_minus(g0, g_or(lp.brk, fr.ret_g))
                try:
                    self.revive(g, dead)
                except DeadBranch:
                    break
                if self.g is False:
                    break
                lp.cnt = False
                c = self.truth(self.ev(st.test))
                if not self.decide(c):
                    break
                n += 1
                if self.loop_bound is not None and n > self.loop_bound:
                    self.throw("NonTermination", "loop exceeded the harness' termination bound")
                if n > self.LOOP_BOUND:
                    raise Inconclusive(f"loop unwinding bound {self.LOOP_BOUND} exceeded (line {st.lineno})")
                try:
                    self.exec_block(st.body)
                except DeadBranch:
                    dead = True
        finally:
            fr.loops.pop()
        if st.orelse:
            ge = g_minus(g0, g_or(lp.brk, fr.ret_g)) if (lp.brk is not False or fr.ret_g is not ret0) else g0
            if ge is not False:
                esc_e = self.esc()
                _, d2 = self.run_guarded(ge, lambda: self.exec_block(st.orelse))
                dead = dead or d2
        g = g0 if fr.ret_g is ret0 else g_minus(g0, fr.ret_g)
        self.revive(g, dead)

    def x_For(self, st):
        items = self.iterate(self.ev(st.iter))
        fr = self.frame
        lp = Loop()
        fr.loops.append(lp)
        g0 = self.g
        ret0 = fr.ret_g
        dead = False
        try:
            for v in items:
                if lp.brk is False and fr.ret_g is ret0:
                    g = g0
                    chk = dead
                else:
                    g = g_minus(g0, g_or(lp.brk, fr.ret_g))
                    chk = True
                try:
                    self.revive(g, chk)
                except DeadBranch:
                    break
                if self.g is False:
                    break
                lp.cnt = False
                try:
                    self.assign(st.target, v)
                    self.exec_block(st.body)
                except DeadBranch:
                    dead = True
        finally:
            fr.loops.pop()
        if st.orelse:
            ge = g_minus(g0, g_or(lp.brk, fr.ret_g)) if (lp.brk is not False or fr.ret_g is not ret0) else g0
            if ge is not False:
                _, d2 = self.run_guarded(ge, lambda: self.exec_block(st.orelse))
                dead = dead or d2
        g = g0 if fr.ret_g is ret0 else g_minus(g0, fr.ret_g)
        self.revive(g, dead)

    def x_Raise(self, st):
        if st.exc is None:
            if not self.active_exc:
                self.throw("RuntimeError", "No active exception to reraise")
            self.commit()
            raise self.active_exc[-1]
        e = self.ev(st.exc)
        if isinstance(e, Cls):
            e = self.instantiate(e, [], {})
        if isinstance(e, PyExc):
            e = e.obj
        if not (isinstance(e, Obj) and e.cls.issub(self.builtins["BaseException"])):
            self.throw("TypeError", "exceptions must derive from BaseException")
        self.commit()
        raise PyExc(e)

    def x_Try(self, st):
        fr = self.frame
        g_try = self.g
        esc0 = self.esc()
        exc = None
        try:
            self.exec_block(st.body)
            if st.orelse:
                self.after_region(g_try, esc0)
                self.exec_block(st.orelse)
        except PyExc as e:
            exc = e
        if exc is not None:
            # a raised exception is real on this path: the guard it was raised under was committed
            self.g = True
            g_try = True
            for h in st.handlers:
                hc = self.ev(h.type) if h.type is not None else None
                if self.exc_matches(exc, hc):
                    caught = exc
                    exc = None
                    self.active_exc.append(caught)
                    try:
                        if h.name:
                            self.store_name(h.name, caught.obj)
                        self.exec_block(h.body)
                    except PyExc as e2:
                        exc = e2
                        self.g = True
                    finally:
                        self.active_exc.pop()
                    break
        if st.finalbody:
            before = (fr.ret, fr.ret_g)
            self.g = g_try
            self.exec_block(st.finalbody)
            if fr.ret is not before[0] or fr.ret_g is not before[1]:
                raise Unsupported("return inside finally")
        if exc is not None:
            raise exc
        self.after_region(g_try, esc0 if g_try is not True else NOTSET)

    def x_With(self, st):
        self._with(st, 0)

    def _with(self, st, k):
        if k == len(st.items):
            self.exec_block(st.body)
            return
        item = st.items[k]
        fr = self.frame
        mgr = self.ev(item.context_expr)
        exit_ = self.getattr(mgr, "__exit__")
        v = self.call(self.getattr(mgr, "__enter__"), [], {})
        if item.optional_vars is not None:
            self.assign(item.optional_vars, v)
        g_with = self.g
        esc0 = self.esc()
        exc = None
        try:
            self._with(st, k + 1)
        except PyExc as e:
            exc = e
        if exc is not None:
            self.g = True
            r = self.call(exit_, [exc.cls, exc.obj, None], {})
            if self.decide(self.truth(r)):
                return
            raise exc
        before = (fr.ret, fr.ret_g)
        self.g = g_with
        self.call(exit_, [None, None, None], {})
        if fr.ret is not before[0] or fr.ret_g is not before[1]:
            raise Unsupported("return inside __exit__ frame")
        self.after_region(g_with, esc0 if g_with is not True else NOTSET)

    def x_Match(self, st):
        subj = self.ev(st.subject)
        for case in st.cases:
            binds = {}
            t = self.match_pattern(case.pattern, subj, binds)
            if not self.decide(self.truth(t)):
                continue
            for k, v in binds.items():
                self.store_name(k, v)
            if case.guard is not None and not self.decide(self.truth(self.ev(case.guard))):
                continue
            self.exec_block(case.body)
            return

    def match_pattern(self, pat, subj, binds):
        if isinstance(pat, ast.MatchValue):
            return self.equal(subj, self.ev(pat.value))
        if isinstance(pat, ast.MatchSingleton):
            return self.identical(subj, pat.value)
        if isinstance(pat, ast.MatchAs):
            t = True if pat.pattern is None else self.match_pattern(pat.pattern, subj, binds)
            if pat.name is not None:
                binds[pat.name] = subj
            return t
        if isinstance(pat, ast.MatchOr):
            for p_ in pat.patterns:
                if self.decide(self.truth(self.match_pattern(p_, subj, binds))):
                    return True
            return False
        if isinstance(pat, ast.MatchSequence):
            if not isinstance(subj, (tuple, PList)) or any(isinstance(p_, ast.MatchStar) for p_ in pat.patterns):
                if isinstance(subj, (tuple, PList)):
                    raise Unsupported("starred sequence pattern")
                return False
            items = list(subj) if isinstance(subj, tuple) else list(subj.items)
            if len(items) != len(pat.patterns):
                return False
            for p_, v in zip(pat.patterns, items):
                if not self.decide(self.truth(self.match_pattern(p_, v, binds))):
                    return False
            return True
        raise Unsupported(f"match pattern {type(pat).__name__}")

    def exc_matches(self, e, hc):
        if hc is None:
            return True
        if isinstance(hc, tuple):
            return any(self.exc_matches(e, x) for x in hc)
        if isinstance(hc, Cls):
            return e.cls.issub(hc)
        raise Unsupported("except clause type")

    # ------------------------------------------------------------------ expressions
    def ev(self, e):
        m = getattr(self, "e_" + type(e).__name__, None)
        if m is None:
            raise Unsupported(f"expression {type(e).__name__} (line {getattr(e, 'lineno', '?')})")
        return m(e)

    def e_Constant(self, e):
        v = e.value
        if isinstance(v, bytes):
            return self.mk_bytes(list(v), False)
        if isinstance(v, float):
            raise Unsupported("float literal")
        if v is Ellipsis:
            return None
        return v

    def e_Name(self, e):
        return self.load_name(e.id)

    def e_JoinedStr(self, e):
        parts = []
        concrete = True
        for part in e.values:
            if isinstance(part, ast.FormattedValue):
                try:
                    v = self.ev(part.value)
                except Unsupported:
                    v = OPAQUE
                if concrete and isinstance(v, (int, str)) and not isinstance(v, bool) and part.conversion == -1 and part.format_spec is None:
                    parts.append(str(v))
                elif concrete and isinstance(v, (int, str)) and part.conversion in (-1, 115, 114):
                    spec = self.e_JoinedStr(part.format_spec) if part.format_spec is not None else ""
                    if not isinstance(spec, str):
                        concrete = False
                    else:
                        try:
                            vv = repr(v) if part.conversion == 114 else (str(v) if part.conversion == 115 else v)
                            parts.append(format(vv, spec))
                        except (ValueError, TypeError) as ex:
                            self.throw(type(ex).__name__, str(ex))
                else:
                    concrete = False
            elif isinstance(part, ast.Constant):
                parts.append(str(part.value))
            else:
                concrete = False
        return "".join(parts) if concrete else OPAQUE

    def e_FormattedValue(self, e):
        self.ev(e.value)
        return OPAQUE

    def e_Tuple(self, e):
        return tuple(self._elts(e.elts))

    def e_List(self, e):
        return self.mk_list(self._elts(e.elts))

    def _elts(self, elts):
        out = []
        for x in elts:
            if isinstance(x, ast.Starred):
                out.extend(self.iterate(self.ev(x.value)))
            else:
                out.append(self.ev(x))
        return out

    def e_Dict(self, e):
        d = self.mk_dict()
        for k, v in zip(e.keys, e.values):
            if k is None:
                src = self.ev(v)
                if not isinstance(src, PDict):
                    raise Unsupported("dict unpack of non-dict")
                d.d.update(src.d)
            else:
                d.d[self.hashable(self.ev(k))] = self.ev(v)
        return d

    def is_symkey(self, k):
        if isinstance(k, Str):
            return True
        if isinstance(k, Bytes):
            if k.mutable or k.kind == "bytearray":
                self.throw("TypeError", "unhashable type: 'bytearray'")
            return True                   # bytes keys are found by equality, like text keys (a snapshot is stored)
        if isinstance(k, (SymInt, SymBool)):
            return True
        if isinstance(k, tuple):
            return any(self.is_symkey(x) for x in k)
        return False

    def dict_find(self, o, k):
        """position of key k among the entries of PDict o: ("d", key) / ("sym", index) / None; forks on equality"""
        if not self.is_symkey(k):
            kk = self.hashable(k)
            if kk in o.d:
                return ("d", kk)
            for i, (k2, _) in enumerate(o.sym):
                if self.decide(self.truth(self.equal(k2, k))):
                    return ("sym", i)
            return None
        for kk in list(o.d.keys()):
            if self.decide(self.truth(self.equal(kk, k))):
                return ("d", kk)
        for i, (k2, _) in enumerate(o.sym):
            if self.decide(self.truth(self.equal(k2, k))):
                return ("sym", i)
        return None

    def dict_get(self, o, k, default=NOTSET):
        hit = self.dict_find(o, k)
        if hit is None:
            return default
        return o.d[hit[1]] if hit[0] == "d" else o.sym[hit[1]][1]

    def dict_set(self, o, k, v):
        hit = self.dict_find(o, k)
        self.structural(o)
        if hit is None:
            if self.is_symkey(k):
                if isinstance(k, Bytes):
                    k = Bytes(list(k.items), False, self.new_serial(), "bytes")
                o.sym.append([k, v])
            else:
                o.d[self.hashable(k)] = v
        elif hit[0] == "d":
            o.d[hit[1]] = v
        else:
            o.sym[hit[1]][1] = v

    def hashable(self, k):
        if isinstance(k, (str, int, bool, tuple)) or k is None:
            return k
        if isinstance(k, EnumVal) and isinstance(k.v, int):
            return k.v
        if isinstance(k, (SymInt, SymBool)):
            return self.concretize(k)
        raise Unsupported(f"dict key {type(k).__name__}")

    def e_Lambda(self, e):
        fr = self.frame
        f = Func(e, fr.globs, fr.globs.get("__name__"), "<lambda>", closure=fr if fr.func is not None else None)
        f.defaults = [self.ev(d) for d in e.args.defaults]
        f.kwdefaults = [self.ev(d) if d is not None else NOTSET for d in e.args.kw_defaults]
        return f

    def e_IfExp(self, e):
        c = self.truth(self.ev(e.test))
        if not isinstance(c, bool):
            c = simp_bool(c.e)
        if isinstance(c, bool):
            return self.ev(e.body if c else e.orelse)
        if not self.merge_enabled:
            return self.ev(e.body if self.decide(c) else e.orelse)
        g0 = self.g
        gt, ge, t_ok, e_ok = self.split(c)
        if t_ok and not e_ok:
            return self.ev(e.body)
        if e_ok and not t_ok:
            return self.ev(e.orelse)
        n0 = self.stats.commits
        a, d1 = self.run_guarded(gt, lambda: self.ev(e.body))
        if not d1 and self.stats.commits != n0 and self.g is True:
            # the guard became part of the path condition while evaluating the first operand
            self.g = g0
            return a
        b, d2 = self.run_guarded(ge, lambda: self.ev(e.orelse))
        if not d2 and d1 and self.g is True:
            self.g = g0
            return b
        self.revive(g0, d1 or d2)
        if d1 and d2:
            self.g = False
            raise DeadBranch()
        if d1:
            return b
        if d2:
            return a
        r = self.ite(c.e, a, b)
        if r is not NOTSET:
            return r
        return a if self.decide(c) else b

    def e_Attribute(self, e):
        return self.getattr(self.ev(e.value), e.attr)

    def e_UnaryOp(self, e):
        v = self.ev(e.operand)
        if isinstance(e.op, ast.Not):
            return self.b_not(self.truth(v))
        if isinstance(e.op, ast.USub):
            if isinstance(v, EnumVal):
                v = v.v
            if isinstance(v, (int, bool)):
                return -v
            if isinstance(v, (SymInt, SymBool)):
                return mk_int(-zi(v))
            raise Unsupported("unary minus operand")
        if isinstance(e.op, ast.UAdd):
            return v
        if isinstance(e.op, ast.Invert):
            if isinstance(v, int):
                return ~v
            return mk_int(-zi(v) - 1)
        raise Unsupported("unary operator")

    def b_not(self, t):
        if isinstance(t, bool):
            return not t
        return mk_bool(z3.Not(t.e)) if not z3.is_not(t.e) else mk_bool(t.e.arg(0))

    def e_BoolOp(self, e):
        return self.boolop(e.values, isinstance(e.op, ast.And))

    def boolop(self, values, is_and):
        """Python and/or: `a and b` is `b if a else a`; later operands run under the guard that the
        earlier ones let evaluation continue."""
        v = self.ev(values[0])
        if len(values) == 1:
            return v
        t = self.truth(v)
        if not isinstance(t, bool):
            t = simp_bool(t.e)
        if isinstance(t, bool):
            if t != is_and:
                return v
            return self.boolop(values[1:], is_and)
        if not self.merge_enabled:
            if self.decide(t) != is_and:
                return v
            return self.boolop(values[1:], is_and)
        cont = t if is_and else self.b_not(t)
        g0 = self.g
        gc, gs, c_ok, s_ok = self.split(cont)
        if not c_ok:
            return v
        if not s_ok:
            return self.boolop(values[1:], is_and)
        r, dead = self.run_guarded(gc, lambda: self.boolop(values[1:], is_and))
        self.revive(g0, dead)
        if dead:
            return v
        if boolish(v) and boolish(r):
            return mk_bool(z3.And(t.e, zb(r)) if is_and else z3.Or(t.e, zb(r)))
        m = self.ite(cont.e, r, v)
        if m is not NOTSET:
            return m
        return r if self.decide(cont) else v

    def e_Compare(self, e):
        left = self.ev(e.left)
        res = None
        for op, r in zip(e.ops, e.comparators):
            if res is not None:
                # chained comparison with symbolic prefix: operands are pure in practice
                pass
            right = self.ev(r)
            c = self.compare(op, left, right)
            if isinstance(c, bool):
                if not c:
                    return False
            else:
                res = c if res is None else mk_bool(z3.And(res.e, c.e))
            left = right
        return True if res is None else res

    def compare(self, op, a, b):
        if isinstance(op, (ast.Is, ast.IsNot)):
            r = self.identical(a, b)
            return r if isinstance(op, ast.Is) else not r
        if isinstance(op, (ast.In, ast.NotIn)):
            c = self.contains(b, a)
            return c if isinstance(op, ast.In) else self.b_not(c)
        if isinstance(op, (ast.Eq, ast.NotEq)):
            r = self.equal(a, b)
            return r if isinstance(op, ast.Eq) else self.b_not(r)
        a2 = a.v if isinstance(a, EnumVal) else a
        b2 = b.v if isinstance(b, EnumVal) else b
        if numeric(a2) and numeric(b2):
            if isinstance(a2, int) and isinstance(b2, int):
                return {ast.Lt: a2 < b2, ast.LtE: a2 <= b2, ast.Gt: a2 > b2, ast.GtE: a2 >= b2}[type(op)]
            x, y = zi(a2), zi(b2)
            return mk_bool({ast.Lt: x < y, ast.LtE: x <= y, ast.Gt: x > y, ast.GtE: x >= y}[type(op)])
        if isinstance(a2, str) and isinstance(b2, str):
            return {ast.Lt: a2 < b2, ast.LtE: a2 <= b2, ast.Gt: a2 > b2, ast.GtE: a2 >= b2}[type(op)]
        if a2 is None or b2 is None:
            self.throw("TypeError", "ordering comparison with None")
        raise Unsupported(f"ordering comparison {type(a).__name__} {type(b).__name__}")

    def identical(self, a, b):
        if a is None or b is None:
            return a is b
        if isinstance(a, bool) and isinstance(b, bool):
            return a == b
        if isinstance(a, EnumVal) and isinstance(b, EnumVal):
            if a is b:
                return True
            if a.cls is not b.cls:
                return False
            raise Unsupported("identity of enum values")
        if isinstance(a, (SymInt, SymBool)) or isinstance(b, (SymInt, SymBool)):
            if (a is True or a is False or b is True or b is False) and isinstance(a, (bool, SymBool)) and isinstance(b, (bool, SymBool)):
                return self.equal(a, b)
            raise Unsupported("identity test on symbolic scalar")
        if isinstance(a, int) and isinstance(b, int):
            if a == b:
                raise Unsupported("identity test on equal ints")
            return False
        return a is b

    def contains(self, cont, x):
        if isinstance(cont, PDict):
            return self.dict_find(cont, x) is not None
        if isinstance(cont, (PList, tuple, Bytes)):
            items = cont.items if not isinstance(cont, tuple) else cont
            acc = False
            for y in items:
                c = self.equal(x, y)
                if c is True:
                    return True
                if c is False:
                    continue
                acc = c if acc is False else mk_bool(z3.Or(acc.e, c.e))
            return acc
        if isinstance(cont, str) and isinstance(x, str):
            return x in cont
        if isinstance(cont, range):
            if isinstance(x, int):
                return x in cont
        raise Unsupported(f"'in' on {type(cont).__name__}")

    def seq_of(self, v):
        if isinstance(v, Str):
            return "str", v.cps
        if isinstance(v, str):
            return "str", [ord(c) for c in v]
        if isinstance(v, Bytes):
            return "bytes", v.items
        if isinstance(v, PList):
            return "list", v.items
        if isinstance(v, tuple):
            return "tuple", list(v)
        return None, None

    def equal(self, a, b):
        """Python == as bool / SymBool."""
        if a is None or b is None:
            return a is b
        if isinstance(a, EnumVal):
            a = a.v
        if isinstance(b, EnumVal):
            b = b.v
        if numeric(a) and numeric(b):
            if isinstance(a, int) and isinstance(b, int):
                return a == b
            if boolish(a) and boolish(b):
                return mk_bool(zb(a) == zb(b))
            return mk_bool(zi(a) == zi(b))
        if isinstance(a, str) and isinstance(b, str):
            return a == b
        if isinstance(a, OpaqueStr) or isinstance(b, OpaqueStr):
            raise Unsupported("comparison of opaque string")
        ka, sa = self.seq_of(a)
        kb, sb = self.seq_of(b)
        if ka is not None and kb is not None:
            if ka != kb:
                return False
            if len(sa) != len(sb):
                return False
            acc = []
            for x, y in zip(sa, sb):
                c = self.equal(x, y)
                if c is False:
                    return False
                if c is not True:
                    acc.append(c.e)
            if not acc:
                return True
            return mk_bool(z3.And(*acc)) if len(acc) > 1 else mk_bool(acc[0])
        if ka is not None or kb is not None:
            return False
        if isinstance(a, PDict) and isinstance(b, PDict):
            if set(a.d) != set(b.d):
                return False
            acc = True
            for k in a.d:
                c = self.equal(a.d[k], b.d[k])
                if c is False:
                    return False
                if c is not True:
                    acc = c if acc is True else mk_bool(z3.And(acc.e, c.e))
            return acc
        if isinstance(a, Obj) and isinstance(b, Obj):
            eq = a.cls.lookup("__eq__")
            if isinstance(eq, Func):
                return self.truth(self.call(eq, [a, b], {}))
            return a is b
        if numeric(a) or numeric(b):
            return False
        return a is b

    def e_BinOp(self, e):
        return self.binop(e.op, self.ev(e.left), self.ev(e.right))

    def binop(self, op, a, b):
        if isinstance(a, EnumVal):
            a = a.v
        if isinstance(b, EnumVal):
            b = b.v
        if isinstance(a, int) and isinstance(b, int):
            if isinstance(op, ast.Div):
                if b == 0:
                    self.throw("ZeroDivisionError", "division by zero")
                return FloatQuot(a, b)
            if isinstance(op, (ast.FloorDiv, ast.Mod)) and b == 0:
                self.throw("ZeroDivisionError", "integer division or modulo by zero")
            if isinstance(op, ast.Pow) and b < 0:
                raise Unsupported("negative power")
            if isinstance(op, (ast.LShift, ast.RShift)) and b < 0:
                self.throw("ValueError", "negative shift count")
            fn = _INT_OPS.get(type(op))
            if fn is None:
                raise Unsupported(f"int operator {type(op).__name__}")
            return fn(a, b)
        if numeric(a) and numeric(b):
            return self.sym_binop(op, a, b)
        if isinstance(op, ast.Add):
            if isinstance(a, (str, OpaqueStr, Str)) and isinstance(b, (str, OpaqueStr, Str)):
                if isinstance(a, str) and isinstance(b, str):
                    return a + b
                if isinstance(a, OpaqueStr) or isinstance(b, OpaqueStr):
                    return OPAQUE
                return Str(self.seq_of(a)[1] + self.seq_of(b)[1])
            if isinstance(a, Bytes) and isinstance(b, Bytes):
                return self.mk_bytes(a.items + b.items, a.mutable, a.kind if a.kind != "memoryview" else "bytes")
            if isinstance(a, PList) and isinstance(b, PList):
                return self.mk_list(a.items + b.items)
            if isinstance(a, tuple) and isinstance(b, tuple):
                return a + b
        if isinstance(op, ast.Mult):
            if isinstance(b, (PList, tuple, Bytes, str)) and numeric(a):
                a, b = b, a
            if numeric(b) and isinstance(a, (PList, tuple, Bytes, str)):
                n = self.concretize(b)
                if isinstance(a, PList):
                    return self.mk_list(a.items * n)
                if isinstance(a, Bytes):
                    return self.mk_bytes(a.items * n, a.mutable, a.kind)
                return a * n
        if isinstance(op, ast.Mod) and isinstance(a, (str, OpaqueStr)):
            if isinstance(a, str):
                bb = b if isinstance(b, tuple) else (b,)
                if all(isinstance(x, (int, str)) for x in bb):
                    try:
                        return a % b
                    except (TypeError, ValueError):
                        self.throw("TypeError", "bad string formatting operands")
            return OPAQUE
        if isinstance(op, ast.BitOr) and (isinstance(a, (Cls, Native)) or a is None):
            return None   # typing unions in annotations evaluated at run time
        self.throw("TypeError", f"unsupported operand types for {type(op).__name__}: {type(a).__name__}, {type(b).__name__}")

    def sym_binop(self, op, a, b):
        if isinstance(op, ast.Add):
            return mk_int(zi(a) + zi(b))
        if isinstance(op, ast.Sub):
            return mk_int(zi(a) - zi(b))
        if isinstance(op, ast.Mult):
            if isinstance(a, int) and a == 0 or isinstance(b, int) and b == 0:
                return 0
            return mk_int(zi(a) * zi(b))
        if isinstance(op, ast.Div):
            self.throw_if(self.equal(b, 0), "ZeroDivisionError", "division by zero")
            return FloatQuot(a, b)
        if isinstance(op, (ast.FloorDiv, ast.Mod)):
            self.throw_if(self.equal(b, 0), "ZeroDivisionError", "integer division or modulo by zero")
            x, y = zi(a), zi(b)
            if isinstance(b, int):
                if b > 0:
                    return mk_int(x / y if isinstance(op, ast.FloorDiv) else x % y)
                # negative constant divisor: floor semantics via negation
                if isinstance(op, ast.FloorDiv):
                    return mk_int((-x) / (-y))
                return mk_int(-((-x) % (-y)))
            # symbolic divisor: settle its sign first (forks only if both signs are possible) so that the
            # term handed to the solver stays a plain div/mod
            if self.decide(mk_bool(y > 0)):
                return mk_int(x / y if isinstance(op, ast.FloorDiv) else x % y)
            if isinstance(op, ast.FloorDiv):
                return mk_int((-x) / (-y))
            return mk_int(-((-x) % (-y)))
        if isinstance(op, (ast.BitAnd, ast.BitXor, ast.BitOr)):
            return self.bitop(op, a, b)
        if isinstance(op, (ast.LShift, ast.RShift)):
            n = self.concretize(b)
            if n < 0:
                self.throw("ValueError", "negative shift count")
            if isinstance(op, ast.LShift):
                return mk_int(zi(a) * (1 << n))
            return mk_int(zi(a) / (1 << n))
        if isinstance(op, ast.Pow):
            n = self.concretize(b)
            if n < 0:
                raise Unsupported("negative power")
            r = 1
            for _ in range(n):
                r = self.binop(ast.Mult(), r, a)
            return r
        raise Unsupported(f"symbolic operator {type(op).__name__}")

    def bitop(self, op, a, b):
        """Bitwise and/or/xor on non-negative ints, exact over the integers by bit extraction.
        One side constant: linear in its set bits; both symbolic: bounded to 16 bits."""
        if isinstance(a, (int, bool)) and not isinstance(b, (int, bool)):
            a, b = b, a
        x = zi(a)
        wa = width_of(a)
        if wa is None:
            self.require(mk_bool(x >= 0), "bit operation on a possibly negative value")
        if isinstance(b, (int, bool)) and wa is not None and wa <= 16 and int(b) >= 0:
            # value known to lie in [0, 2^wa): peel bits from the top with comparisons only (linear, no div/mod)
            m = int(b)
            low = (m & -m).bit_length() - 1 if m else wa       # lowest set bit of the mask
            r = x
            conj = z3.IntVal(0)
            for k in range(wa - 1, -1, -1):
                if k < low:
                    break
                bit = r >= (1 << k)
                if (m >> k) & 1:
                    conj = conj + z3.If(bit, 1 << k, 0)
                r = r - z3.If(bit, 1 << k, 0)
            hi_part = (m >> wa) << wa          # mask bits above the value's width
            if isinstance(op, ast.BitAnd):
                return mk_int(z3.simplify(conj), wa)
            if isinstance(op, ast.BitXor):
                return mk_int(z3.simplify(x + m - 2 * conj), max(wa, m.bit_length()))
            return mk_int(z3.simplify(x + m - conj), max(wa, m.bit_length()))
        if isinstance(b, (int, bool)):
            m = int(b)
            if m < 0:
                raise Unsupported("bit operation with negative constant")
            # x & m = sum over maximal runs [lo,hi) of set bits of (x mod 2^hi - x mod 2^lo);
            # x ^ m = x + m - 2*(x & m);  x | m = x + m - (x & m)        (x >= 0, exact over the integers)
            conj = z3.IntVal(0)
            k = 0
            while m >> k:
                if (m >> k) & 1:
                    lo = k
                    while (m >> k) & 1:
                        k += 1
                    term = x % (1 << k)
                    if lo:
                        term = term - x % (1 << lo)
                    conj = conj + term
                else:
                    k += 1
            if isinstance(op, ast.BitAnd):
                return mk_int(z3.simplify(conj))
            if isinstance(op, ast.BitXor):
                return mk_int(z3.simplify(x + m - 2 * conj))
            return mk_int(z3.simplify(x + m - conj))
        y = zi(b)
        self.require(mk_bool(y >= 0), "bit operation on a possibly negative value")
        W = 16
        self.require(mk_bool(z3.And(x < (1 << W), y < (1 << W))), "symbolic-by-symbolic bit operation wider than 16 bits")
        r = z3.IntVal(0)
        for k in range(W):
            ba = (x / (1 << k)) % 2
            bb = (y / (1 << k)) % 2
            if isinstance(op, ast.BitAnd):
                bit = ba * bb
            elif isinstance(op, ast.BitOr):
                bit = ba + bb - ba * bb
            else:
                bit = ba + bb - 2 * ba * bb
            r = r + bit * (1 << k)
        return mk_int(r)

    # ------------------------------------------------------------------ subscripts
    def index_of(self, idx, n):
        """Concrete, bounds-checked index for a sequence of length n."""
        if isinstance(idx, EnumVal):
            idx = idx.v
        if not numeric(idx):
            self.throw("TypeError", "indices must be integers")
        i = self.concretize(idx)
        if i < 0:
            i += n
        if not 0 <= i < n:
            self.throw("IndexError", "index out of range")
        return i

    def slice_range(self, sl, n):
        """positions selected by a slice of a sequence of length n (concrete, value-forking symbolic bounds)"""
        ev = (lambda v: v) if isinstance(sl, SliceObj) else self.ev
        lo = None if sl.lower is None else ev(sl.lower)
        hi = None if sl.upper is None else ev(sl.upper)
        st = None if sl.step is None else ev(sl.step)
        for v in (lo, hi, st):
            if v is not None and not numeric(v.v if isinstance(v, EnumVal) else v):
                self.throw("TypeError", "slice indices must be integers or None")
        lo = None if lo is None else self.concretize(lo)
        hi = None if hi is None else self.concretize(hi)
        st = None if st is None else self.concretize(st)
        if st == 0:
            self.throw("ValueError", "slice step cannot be zero")
        return range(*slice(lo, hi, st).indices(n))

    def slice_bounds(self, sl, n):
        r = self.slice_range(sl, n)
        if r.step != 1:
            raise Unsupported("extended slice where a plain one is required")
        return r.start, max(r.start, r.stop)

    def e_Subscript(self, e):
        o = self.ev(e.value)
        if isinstance(o, (Native, Cls)) or o is None:
            return o                       # typing subscripts such as Optional[int]
        sl = e.slice
        if not isinstance(sl, ast.Slice):
            sl = self.ev(sl)
            if not isinstance(sl, SliceObj):
                return self.getitem(o, sl)
        if True:
            kind, seq = self.seq_of(o)
            if kind is None:
                raise Unsupported(f"slice of {type(o).__name__}")
            rng = self.slice_range(sl, len(seq))
            if isinstance(o, str):
                return "".join(o[i] for i in rng)
            r = [seq[i] for i in rng]
            if kind == "bytes":
                return self.mk_bytes(r, o.mutable, o.kind, o.base)      # a slice of a memoryview keeps its base object
            if kind == "str":
                return Str(r)
            if kind == "list":
                return self.mk_list(r)
            return tuple(r)

    def getitem(self, o, idx):
        if isinstance(o, PDict):
            r = self.dict_get(o, idx)
            if r is NOTSET:
                self.throw("KeyError", "key not found")
            return r
        kind, seq = self.seq_of(o)
        if kind is None:
            if isinstance(o, Obj):
                gi = o.cls.lookup("__getitem__")
                if isinstance(gi, Func):
                    return self.call(gi, [o, idx], {})
            if isinstance(o, (Native, Cls)) or o is None:
                return o
            self.throw("TypeError", f"'{type(o).__name__}' object is not subscriptable")
        if isinstance(idx, SymInt) and kind in ("bytes", "list", "tuple") and 0 < len(seq) <= 4096:
            e0 = z3.simplify(idx.e)
            if not z3.is_int_value(e0):
                if all(isinstance(x, int) and not isinstance(x, bool) for x in seq):
                    return self.table_lookup(seq, e0)
                if all(intish(x) for x in seq) or all(boolish(x) for x in seq):
                    return self.table_select(seq, e0)
        i = self.index_of(idx, len(seq))
        if isinstance(o, str):
            return o[i]
        r = seq[i]
        return Str([r]) if kind == "str" else r

    def table_select(self, table, e):
        """table[e] for a table of (possibly symbolic) scalars of one kind and a symbolic index"""
        n = len(table)
        self.throw_if(mk_bool(z3.Or(e < -n, e >= n)), "IndexError", "index out of range")
        pos = z3.If(e < 0, e + n, e)
        bools = all(boolish(x) for x in table)
        leaf = (lambda x: zb(x)) if bools else (lambda x: zi(x))

        def build(lo, hi):
            if hi - lo == 1:
                return leaf(table[lo])
            mid = (lo + hi) // 2
            return z3.If(pos < mid, build(lo, mid), build(mid, hi))
        r = build(0, n)
        return mk_bool(r) if bools else mk_int(r)

    def table_lookup(self, table, e):
        """table[e] for a concrete integer table and a symbolic index: bounds check + balanced ite tree
        (precomputed lookup tables are a common rewrite of per-byte branches)"""
        n = len(table)
        self.throw_if(mk_bool(z3.Or(e < -n, e >= n)), "IndexError", "index out of range")
        pos = z3.If(e < 0, e + n, e)

        def build(lo, hi):
            if hi - lo == 1:
                return z3.IntVal(table[lo])
            if all(table[k] == table[lo] for k in range(lo, hi)):
                return z3.IntVal(table[lo])
            mid = (lo + hi) // 2
            return z3.If(pos < mid, build(lo, mid), build(mid, hi))
        w = max(int(x).bit_length() for x in table) if all(x >= 0 for x in table) else None
        return mk_int(build(0, n), w)

    def setitem(self, o, idx, v):
        if isinstance(idx, SliceObj):
            return self.setslice(o, idx, v)
        if isinstance(o, PDict):
            self.dict_set(o, idx, v)
            return
        if isinstance(o, Bytes):
            if not o.mutable:
                self.throw("TypeError", "object does not support item assignment")
            i = self.index_of(idx, len(o.items))
            if self.load_ranges and self.persistent(o):
                self.journal_obj(o)
            self.check_byte(v)
            if isinstance(v, EnumVal):
                v = v.v
            if isinstance(v, (bool, SymBool)):
                v = mk_int(zi(v), 1)
            o.items[i] = self.merged(as_byte(v), o.items[i])
            return
        if isinstance(o, PList):
            i = self.index_of(idx, len(o.items))
            if self.load_ranges and self.persistent(o):
                self.journal_obj(o)
            o.items[i] = self.merged(v, o.items[i])
            return
        if isinstance(o, (tuple, str, Str)):
            self.throw("TypeError", "object does not support item assignment")
        raise Unsupported(f"item assignment on {type(o).__name__}")

    def setslice(self, o, sl, v):
        if isinstance(o, (Bytes, PList)) and sl.step is not None:
            if isinstance(o, Bytes) and not o.mutable:
                self.throw("TypeError", "object does not support item assignment")
            rng = self.slice_range(sl, len(o.items))
            if rng.step != 1:
                src = list(v.items) if isinstance(v, (Bytes, PList)) else self.iterate(v)
                if len(src) != len(rng):
                    self.throw("ValueError", "attempt to assign sequence of wrong size to extended slice")
                for pos, x in zip(rng, src):
                    if isinstance(o, Bytes):
                        self.check_byte(x)
                        x = as_byte(x)
                    o.items[pos] = self.merged(x, o.items[pos])
                return
        if isinstance(o, Bytes):
            if not o.mutable:
                self.throw("TypeError", "object does not support item assignment")
            lo, hi = self.slice_bounds(sl, len(o.items))
            if isinstance(v, Bytes):
                src = list(v.items)
            else:
                src = self.iterate(v)
                for x in src:
                    self.check_byte(x)
                src = [as_byte(x) for x in src]
            if len(src) == hi - lo:
                for k, x in enumerate(src):
                    o.items[lo + k] = self.merged(x, o.items[lo + k])
            else:
                self.structural(o)
                o.items[lo:hi] = src
            return
        if isinstance(o, PList):
            lo, hi = self.slice_bounds(sl, len(o.items))
            src = self.iterate(v)
            self.structural(o)
            o.items[lo:hi] = src
            return
        raise Unsupported(f"slice assignment on {type(o).__name__}")

    # ------------------------------------------------------------------ truthiness / iteration
    def truth(self, v):
        if isinstance(v, (bool, SymBool)):
            return v
        if v is None:
            return False
        if isinstance(v, int):
            return v != 0
        if isinstance(v, SymInt):
            return mk_bool(v.e != 0)
        if isinstance(v, EnumVal):
            return self.truth(v.v)
        if isinstance(v, (tuple, str)):
            return len(v) > 0
        if isinstance(v, (PList, Bytes)):
            return len(v.items) > 0
        if isinstance(v, Str):
            return len(v.cps) > 0
        if isinstance(v, PDict):
            return len(v.d) > 0
        if isinstance(v, OpaqueStr):
            return True
        if isinstance(v, Obj):
            for nm in ("__bool__", "__len__"):
                f = v.cls.lookup(nm)
                if isinstance(f, Func):
                    return self.truth(self.call(f, [v], {}))
            return True
        if isinstance(v, FloatQuot):
            raise Unsupported("truth of float")
        return True

    def iterate(self, it):
        if isinstance(it, PIter):
            rest = it.items[it.pos:]
            it.pos = len(it.items)
            return rest
        if isinstance(it, range):
            return list(it)
        if isinstance(it, tuple):
            return list(it)
        if isinstance(it, PList):
            return list(it.items)
        if isinstance(it, Bytes):
            return list(it.items)
        if isinstance(it, Str):
            return [Str([c]) for c in it.cps]
        if isinstance(it, str):
            return list(it)
        if isinstance(it, PDict):
            return list(it.d.keys())
        if isinstance(it, list):
            return list(it)
        if it is None or numeric(it):
            self.throw("TypeError", "object is not iterable")
        if isinstance(it, Obj):
            f = it.cls.lookup("__iter__")
            if isinstance(f, Func):
                r = self.call(f, [it], {})
                if isinstance(r, Obj) and r is it:
                    raise Unsupported("hand-written iterator class")
                return self.iterate(r)
            g = it.cls.lookup("__getitem__")
            ln = it.cls.lookup("__len__")
            if isinstance(g, Func) and isinstance(ln, Func):
                n = self.concretize(self.call(ln, [it], {}))
                return [self.call(g, [it, i], {}) for i in range(n)]
            self.throw("TypeError", "object is not iterable")
        raise Unsupported(f"iteration over {type(it).__name__}")

    def _comp(self, gens, emit):
        def rec(k):
            if k == len(gens):
                emit()
                return
            gen = gens[k]
            if gen.is_async:
                raise Unsupported("async comprehension")
            for v in self.iterate(self.ev(gen.iter)):
                self.assign(gen.target, v)
                ok = True
                for cond in gen.ifs:
                    if not self.decide(self.truth(self.ev(cond))):
                        ok = False
                        break
                if ok:
                    rec(k + 1)
        fr = self.frame
        inner = Frame({}, fr.globs, func=fr.func, entry_g=self.g, closure=fr)
        self.frame = inner
        try:
            rec(0)
        finally:
            self.frame = fr

    def e_ListComp(self, e):
        out = []
        self._comp(e.generators, lambda: out.append(self.ev(e.elt)))
        return self.mk_list(out)

    def e_GeneratorExp(self, e):
        return self.e_ListComp(e)

    def e_DictComp(self, e):
        d = self.mk_dict()
        self._comp(e.generators, lambda: d.d.__setitem__(self.hashable(self.ev(e.key)), self.ev(e.value)))
        return d

    def e_Set(self, e):
        return tuple(self._elts(e.elts))          # sets are only used for membership tests in this code base

    def e_Yield(self, e):
        v = self.ev(e.value) if e.value is not None else None
        self.commit()
        fr = self.frame
        if fr.yields is None:
            raise Unsupported("yield outside a generator frame")
        fr.yields.append(v)
        if len(fr.yields) > 4096:
            raise Inconclusive("generator yields more than 4096 values")
        return None

    def e_YieldFrom(self, e):
        items = self.iterate(self.ev(e.value))
        self.commit()
        self.frame.yields.extend(items)
        return None

    def e_NamedExpr(self, e):
        v = self.ev(e.value)
        self.store_name(e.target.id, v)
        return v

    def e_Starred(self, e):
        raise Unsupported("starred expression")

    # ------------------------------------------------------------------ attributes
    def getattr(self, o, name):
        if isinstance(o, Module):
            if name in o.ns:
                return o.ns[name]
            if getattr(o, "lazy", False):
                self.exec_module(o)
                if name in o.ns:
                    return o.ns[name]
            sub, _ = self.find_module(o.name + "." + name)
            if sub is not None and (o.name + "." + name) in self.modules:
                return self.modules[o.name + "." + name]
            if o.name in self.stubs:
                raise Unsupported(f"{o.name}.{name} is not modelled")
            self.throw("AttributeError", f"module {o.name} has no attribute {name}")
        if isinstance(o, Obj):
            v = o.cls.lookup(name)
            if isinstance(v, Prop):
                return self.call(v.fget, [o], {})
            if name in o.d:
                return o.d[name]
            if v is NOTSET:
                if name == "__class__":
                    return o.cls
                self.throw("AttributeError", f"'{o.cls.name}' object has no attribute '{name}'")
            if isinstance(v, Func):
                return Bound(v, o)
            if isinstance(v, StaticM):
                return v.f
            if isinstance(v, ClassM):
                return Bound(v.f, o.cls)
            return v
        if isinstance(o, Cls):
            if name == "__name__":
                return o.name
            v = o.lookup(name)
            if v is NOTSET:
                self.throw("AttributeError", f"type object '{o.name}' has no attribute '{name}'")
            if isinstance(v, StaticM):
                return v.f
            if isinstance(v, ClassM):
                return Bound(v.f, o)
            return v
        if isinstance(o, SuperProxy):
            mro = o.self_.cls.mro if isinstance(o.self_, Obj) else o.cls.mro
            start = mro.index(o.cls) + 1 if o.cls in mro else 1
            for c in mro[start:]:
                if name in c.ns:
                    v = c.ns[name]
                    if isinstance(v, Func):
                        return Bound(v, o.self_)
                    if isinstance(v, StaticM):
                        return v.f
                    if isinstance(v, Prop):
                        return self.call(v.fget, [o.self_], {})
                    return v
            if name == "__init__":
                return Native(lambda *a, **k: None, "object.__init__")
            self.throw("AttributeError", f"super object has no attribute {name}")
        if isinstance(o, EnumVal):
            if name in ("value", "_value_"):
                return o.v
            if name in ("name", "_name_"):
                return o.name if o.name is not None else OPAQUE
            v = o.cls.lookup(name)
            if isinstance(v, Func):
                return Bound(v, o)
            if v is not NOTSET:
                return v
            self.throw("AttributeError", f"enum value has no attribute {name}")
        if isinstance(o, PyExc):
            o = o.obj
            return self.getattr(o, name)
        if isinstance(o, Native) and o.name == "int" and name == "from_bytes":
            return Native(lambda *a, **k: self.methods[("int", "from_bytes")](self, *a, **k), "int.from_bytes")
        if isinstance(o, Native) and o.name in ("bytes", "bytearray"):
            if name == "maketrans":
                def maketrans(frm, to):
                    if not (isinstance(frm, Bytes) and isinstance(to, Bytes) and len(frm.items) == len(to.items)):
                        self.throw("ValueError", "maketrans arguments must have same length")
                    if not all(isinstance(x, int) for x in frm.items + to.items):
                        raise Unsupported("maketrans with symbolic bytes")
                    table = list(range(256))
                    for a, b in zip(frm.items, to.items):
                        table[a] = b
                    return self.mk_bytes(table, False, "bytes")
                return Native(maketrans, "bytes.maketrans")
            if name == "fromhex":
                return Native(lambda h: self.mk_bytes(list(bytes.fromhex(h)), o.name == "bytearray", o.name), "fromhex")
        if isinstance(o, Bytes) and o.kind == "memoryview":
            if name == "obj":
                return o.base
            if name == "nbytes":
                return len(o.items)
        key = (self.type_name(o), name)
        m = self.methods.get(key)
        if m is None:
            if o is None:
                self.throw("AttributeError", f"'NoneType' object has no attribute '{name}'")
            pyt = _PY_TYPES.get(key[0])
            if isinstance(o, Bytes):
                pyt = {"bytes": bytes, "bytearray": bytearray, "memoryview": memoryview}[o.kind]
            if pyt is not None:
                if hasattr(pyt, name):
                    raise Unsupported(f"method {key[0]}.{name} is not modelled")
                self.throw("AttributeError", f"'{key[0]}' object has no attribute '{name}'")
            raise Unsupported(f"attribute {name} on {type(o).__name__}")
        return Native(lambda *a, **k: m(self, o, *a, **k), f"{key[0]}.{name}")

    def type_name(self, o):
        if isinstance(o, Bytes):
            return "bytes"
        if isinstance(o, (Str, str, OpaqueStr)):
            return "str"
        if isinstance(o, PList):
            return "list"
        if isinstance(o, PDict):
            return "dict"
        if isinstance(o, tuple):
            return "tuple"
        if isinstance(o, (bool, SymBool)):
            return "bool"
        if isinstance(o, (int, SymInt)):
            return "int"
        if isinstance(o, Func):
            return "function"
        return type(o).__name__

    def setattr(self, o, name, v):
        if isinstance(o, Obj):
            p = o.cls.lookup(name)
            if isinstance(p, Prop):
                if p.fset is None:
                    self.throw("AttributeError", f"property '{name}' of '{o.cls.name}' object has no setter")
                self.call(p.fset, [o, v], {})
                return
            slots = o.cls.lookup("__slots__")
            if slots is not NOTSET and name not in self.iterate(slots):
                self.throw("AttributeError", f"'{o.cls.name}' object has no attribute '{name}'")
            sa = o.cls.lookup("__setattr__")
            if isinstance(sa, Func):
                self.call(sa, [o, name, v], {})
                return
            old = o.d.get(name, NOTSET)
            if self.load_ranges and self.persistent(o):
                self.journal_obj(o)
            if old is NOTSET and self.g is not True and o.serial <= self.region_serial:
                self.commit()
            o.d[name] = self.merged(v, old)
            return
        if isinstance(o, Cls):
            if self.load_depth == 0:
                self.journal_obj(o)
            self.commit()
            o.ns[name] = v
            return
        if isinstance(o, Module):
            o.ns[name] = v
            return
        if o is None or isinstance(o, (int, SymInt, str, Str, tuple, PList, Bytes, EnumVal)):
            self.throw("AttributeError", f"cannot set attribute '{name}'")
        raise Unsupported(f"setattr on {type(o).__name__}")

    # ------------------------------------------------------------------ calls
    def e_Call(self, e):
        if isinstance(e.func, ast.Name) and e.func.id == "super" and not e.args:
            fr = self.frame
            f = fr.func
            if not isinstance(f, Func) or f.cls is None:
                raise Unsupported("super() outside method")
            params = f.node.args.posonlyargs + f.node.args.args
            return SuperProxy(f.cls, fr.locals[params[0].arg])
        f = self.ev(e.func)
        args = self._elts(e.args)
        kw = {}
        for k in e.keywords:
            if k.arg is None:
                d = self.ev(k.value)
                if not isinstance(d, PDict):
                    raise Unsupported("** of non-dict")
                for kk, vv in d.d.items():
                    kw[kk] = vv
            else:
                kw[k.arg] = self.ev(k.value)
        return self.call(f, args, kw)

    def call(self, f, args, kw):
        if isinstance(f, Bound):
            return self.call(f.f, [f.self_] + list(args), kw)
        if isinstance(f, Native):
            return f.fn(*args, **kw)
        if isinstance(f, (StaticM, ClassM)):
            return self.call(f.f, args, kw)
        if isinstance(f, Cls):
            return self.instantiate(f, list(args), kw)
        if isinstance(f, Func):
            return self.call_func(f, list(args), dict(kw))
        if isinstance(f, Obj):
            c = f.cls.lookup("__call__")
            if isinstance(c, Func):
                return self.call_func(c, [f] + list(args), dict(kw))
        if f is None:
            self.throw("TypeError", "'NoneType' object is not callable")
        raise Unsupported(f"call of {type(f).__name__}")

    def bind(self, f, args, kw):
        a = f.node.args
        loc = {}
        params = [p.arg for p in a.posonlyargs + a.args]
        nd = len(f.defaults)
        if len(args) > len(params):
            if a.vararg is None:
                self.throw("TypeError", f"{f.qual}() takes {len(params)} positional arguments but {len(args)} were given")
            loc[a.vararg.arg] = tuple(args[len(params):])
            args = args[: len(params)]
        elif a.vararg is not None:
            loc[a.vararg.arg] = ()
        for i, p in enumerate(params):
            if i < len(args):
                if p in kw:
                    self.throw("TypeError", f"{f.qual}() got multiple values for argument '{p}'")
                loc[p] = args[i]
            elif p in kw:
                loc[p] = kw.pop(p)
            else:
                di = i - (len(params) - nd)
                if di < 0:
                    self.throw("TypeError", f"{f.qual}() missing required argument '{p}'")
                loc[p] = f.defaults[di]
        for p, d in zip(a.kwonlyargs, f.kwdefaults):
            if p.arg in kw:
                loc[p.arg] = kw.pop(p.arg)
            elif d is not NOTSET:
                loc[p.arg] = d
            else:
                self.throw("TypeError", f"{f.qual}() missing required keyword-only argument '{p.arg}'")
        if a.kwarg is not None:
            loc[a.kwarg.arg] = self.mk_dict(kw)
        elif kw:
            self.throw("TypeError", f"{f.qual}() got an unexpected keyword argument '{next(iter(kw))}'")
        return loc

    def call_func(self, f, args, kw):
        key = (f.module, f.qual)
        if key not in self.funcs_used:
            self.funcs_used[key] = getattr(f.node, "lineno", 0)
        if self.g is False:
            raise DeadBranch()
        loc = self.bind(f, args, kw)
        caller = self.frame
        g_call = self.g
        fr = Frame(loc, f.globs, func=f, entry_g=g_call, closure=f.closure)
        if is_generator(f.node):
            # generators run eagerly: the body is executed to the end and the yielded values are handed out afterwards
            # (equal to lazy evaluation whenever consumer and generator do not interleave side effects on shared state;
            # where they do, native replay and interpreter disagree and the run ends inconclusive, never in an alarm)
            self.commit()
            fr.yields = []
        self.depth += 1
        if _DEBUG_STACK is not None:
            _DEBUG_STACK.append(f.qual)
        if self.depth > self.CALL_DEPTH:
            raise Inconclusive("call depth bound exceeded")
        self.frame = fr
        saved_region = self.region_serial
        try:
            if isinstance(f.node, ast.Lambda):
                fr.ret = self.ev(f.node.body)
                fr.ret_g = self.g
            else:
                try:
                    self.exec_block(f.node.body)
                except DeadBranch:
                    # part of the function (or all of it) was found dead
                    if g_call is not True and not self.feasible(g_call):
                        self.g = False
                        raise
        finally:
            self.frame = caller
            self.depth -= 1
            if _DEBUG_STACK is not None:
                _DEBUG_STACK.pop()
            self.region_serial = saved_region
        self.g = g_call
        if fr.yields is not None:
            return PIter(fr.yields)
        if fr.ret_g is False:
            return None
        if fr.ret_g is True or fr.ret_g is g_call:
            return fr.ret
        rem = g_minus(g_call, fr.ret_g)
        if rem is False or not self.feasible(rem):
            return fr.ret
        # some paths fall off the end (None) while others returned a value
        if fr.ret is None:
            return None
        if self._fork(rem):
            self.g = True
            return None
        return fr.ret

    def instantiate(self, c, args, kw):
        if c.is_enum:
            return self.enum_call(c, args, kw)
        native_new = c.lookup("__vsx_new__")
        if native_new is not NOTSET:
            return native_new(self, c, *args, **kw)
        if c.lookup("__abstract__") is True:
            pass
        o = self.mk_obj(c)
        if c.issub(self.builtins["BaseException"]):
            o.d["args"] = tuple(args)
        init = c.lookup("__init__")
        if isinstance(init, Func):
            self.call_func(init, [o] + list(args), dict(kw))
        elif args or kw:
            if not c.issub(self.builtins["BaseException"]):
                self.throw("TypeError", f"{c.name}() takes no arguments")
        return o

    def enum_call(self, c, args, kw):
        """Model of IntEnum(...) under ProtocolEnumMeta: every integer is accepted and keeps its value."""
        if len(args) != 1 or kw:
            raise Unsupported("enum functional API")
        self.assumptions_used.add("enum-model")
        v = args[0]
        if isinstance(v, EnumVal):
            v = v.v
        if isinstance(v, bool):
            v = int(v)
        if isinstance(v, int):
            return c.members.get(v) or EnumVal(c, v)
        if isinstance(v, (SymInt, SymBool)):
            return EnumVal(c, v if isinstance(v, SymInt) else mk_int(zi(v)))
        self.throw("ValueError", "not a valid enum value")


_INT_OPS = {
    ast.Add: lambda a, b: a + b, ast.Sub: lambda a, b: a - b, ast.Mult: lambda a, b: a * b,
    ast.FloorDiv: lambda a, b: a // b, ast.Mod: lambda a, b: a % b, ast.BitAnd: lambda a, b: a & b,
    ast.BitXor: lambda a, b: a ^ b, ast.BitOr: lambda a, b: a | b, ast.Pow: lambda a, b: a ** b,
    ast.LShift: lambda a, b: a << b, ast.RShift: lambda a, b: a >> b,
}
_PY_TYPES = {"bytes": bytearray, "str": str, "list": list, "dict": dict, "tuple": tuple, "int": int, "bool": bool}
