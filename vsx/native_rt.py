"""Native (CPython) runtime for harness files: replays solver models / concrete vectors against the real code.

Usage:  python native_rt.py <request.json>   ->  prints one JSON document
request: {"roots": [...], "lazy": [...pkg names...], "harness": path, "runs": [{"fn":..., "args":[...], "inputs": {...}}, ...]}
Stdlib only; must run under the repository's interpreter.
"""
import importlib
import importlib.machinery
import json
import os
import sys
import types


class AssumeFailed(BaseException):
    pass


class CheckFailed(BaseException):
    def __init__(self, label):
        self.label = label


def install_lazy_packages(roots, lazy):
    """Register empty package modules so that sub-modules import without running package __init__."""
    for name in lazy:
        if name in sys.modules:
            continue
        paths = [os.path.join(r, *name.split(".")) for r in roots]
        paths = [p for p in paths if os.path.isdir(p)]
        if not paths:
            continue
        m = types.ModuleType(name)
        m.__path__ = paths
        m.__package__ = name
        m.__spec__ = importlib.machinery.ModuleSpec(name, None, is_package=True)
        m.__spec__.submodule_search_locations = paths
        sys.modules[name] = m
        if "." in name:
            parent, _, child = name.rpartition(".")
            if parent in sys.modules:
                setattr(sys.modules[parent], child, m)


def to_tuple(x):
    if isinstance(x, list):
        return tuple(to_tuple(v) for v in x)
    if isinstance(x, dict):
        return {k: to_tuple(v) for k, v in x.items()}
    return x


DEC = [ord(bytes([b]).decode("cp1252", "replace")) for b in range(256)]


def plain(v):
    if isinstance(v, (bool, int, str)) or v is None:
        return v
    if isinstance(v, (bytes, bytearray, memoryview)):
        return ["bytes", list(bytes(v))]
    if isinstance(v, (list, tuple)):
        return [plain(x) for x in v]
    try:
        import enum
        if isinstance(v, enum.Enum):
            return int(v)
    except Exception:
        pass
    return f"<{type(v).__name__}>"


class Runtime:
    def __init__(self, inputs):
        self.inputs = inputs
        self.observations = []
        self.rand = list(inputs.get("__random__", []))
        self.rand_ok = True
        self.timer = False

    def api(self):
        rt = self

        def sym_int(name, lo=None, hi=None):
            v = int(rt.inputs[name])
            if (lo is not None and v < lo) or (hi is not None and v > hi):
                raise AssumeFailed()
            return v

        def sym_bool(name):
            return bool(rt.inputs[name])

        def sym_bytes(name, n):
            v = bytes(rt.inputs[name])
            if len(v) != n:
                raise AssumeFailed()
            return v

        def sym_str(name, n, lo=0, hi=0x10FFFF):
            cps = rt.inputs[name]
            if len(cps) != n or any(not lo <= c <= hi for c in cps):
                raise AssumeFailed()
            return "".join(chr(c) for c in cps)

        def assume(c):
            if not c:
                raise AssumeFailed()

        def check(c, label="check"):
            if not c:
                raise CheckFailed(label)

        def reach(label):
            pass

        def observe(label, value):
            rt.observations.append([label, plain(value)])

        def fork(x):
            return x

        def cp1252_enc(cp):
            if isinstance(cp, str):
                return cp.encode("cp1252", "replace")
            return chr(cp).encode("cp1252", "replace")[0]

        def cp1252_dec(b):
            if isinstance(b, (bytes, bytearray, memoryview)):
                return bytes(b).decode("cp1252", "replace")
            return DEC[b]

        def cp1252_ok(cp):
            try:
                chr(cp).encode("cp1252", "strict")
                return True
            except UnicodeError:
                return False

        def str_of(cps):
            return "".join(chr(c) for c in cps)

        def cps_of(s):
            return [ord(c) for c in s]

        def tdiv(a, b):
            q = abs(a) // abs(b)
            return q if (a >= 0) == (b > 0) else -q

        def exc_name(e):
            return type(e).__name__

        def is_vsx():
            return False

        def set_range_cap(k):
            pass

        def set_loop_bound(k):
            rt.timer = True

        def load_class(module, qualname):
            o = importlib.import_module(module)
            for part in qualname.split("."):
                o = getattr(o, part)
            return o

        def forked(fn, *args, **kw):
            return fn(*args, **kw)

        return dict(sym_int=sym_int, sym_bool=sym_bool, sym_bytes=sym_bytes, sym_str=sym_str, assume=assume,
                    check=check, reach=reach, observe=observe, fork=fork, cp1252_enc=cp1252_enc, cp1252_dec=cp1252_dec,
                    cp1252_ok=cp1252_ok, str_of=str_of, cps_of=cps_of, tdiv=tdiv, exc_name=exc_name, is_vsx=is_vsx, forked=forked, load_class=load_class, set_range_cap=set_range_cap, set_loop_bound=set_loop_bound)

    def patch_random(self):
        import random
        rt = self

        def randrange(a, b=None, step=1):
            if b is None:
                a, b = 0, a
            if a >= b:
                raise ValueError("empty range for randrange()")
            if not rt.rand:
                rt.rand_ok = False
                return a
            v = rt.rand.pop(0)
            if not a <= v < b:
                rt.rand_ok = False
            return v

        def randint(a, b):
            return randrange(a, b + 1)

        self._saved_random = (random.randrange, random.randint)
        random.randrange = randrange
        random.randint = randint

    def unpatch_random(self):
        import random
        random.randrange, random.randint = self._saved_random


_harness_cache = {}


def load_harness(path):
    if path in _harness_cache:
        return _harness_cache[path]
    src = open(path, encoding="utf-8").read()
    code = compile(src, path, "exec")
    g = {"__name__": "__vsx_harness__", "__file__": path}
    g.update(Runtime({}).api())
    exec(code, g)
    _harness_cache[path] = g
    return g


def run_one(harness_path, fn, args, inputs):
    import builtins
    rt = Runtime(inputs)
    for k, f in rt.api().items():      # harness helper modules see the API as builtins, like in the interpreter
        setattr(builtins, k, f)
    g = load_harness(harness_path)
    g.update(rt.api())
    rt.patch_random()
    import signal

    class _Timeout(Exception):
        pass

    def _on_alarm(signum, frame):
        raise _Timeout()

    signal.signal(signal.SIGALRM, _on_alarm)
    signal.setitimer(signal.ITIMER_REAL, 20.0)       # a run that does not finish is reported as NonTermination
    try:
        try:
            g[fn](*to_tuple(args))
            out = {"status": "ok"}
        except _Timeout:
            out = {"status": "uncaught", "label": "uncaught:NonTermination", "exc": "NonTermination", "message": "no result within 20 s"}
        except AssumeFailed:
            out = {"status": "assume_failed"}
        except CheckFailed as c:
            out = {"status": "check", "label": c.label}
        except RecursionError:
            out = {"status": "uncaught", "label": "uncaught:RecursionError", "exc": "RecursionError"}
        except Exception as e:      # noqa: BLE001 - the harness lets real exceptions escape on purpose
            out = {"status": "uncaught", "label": "uncaught:" + type(e).__name__, "exc": type(e).__name__,
                   "message": str(e)[:300]}
    finally:
        signal.setitimer(signal.ITIMER_REAL, 0)
        rt.unpatch_random()
    if not rt.rand_ok:
        out["random_contract_broken"] = True
    out["observations"] = rt.observations
    return out


def main():
    req = json.load(open(sys.argv[1]))
    for r in reversed(req["roots"]):
        sys.path.insert(0, r)
    sys.setrecursionlimit(10000)
    install_lazy_packages(req["roots"], req.get("lazy", []))
    results = []
    for run in req["runs"]:
        try:
            results.append(run_one(req["harness"], run["fn"], run.get("args", []), run.get("inputs", {})))
        except BaseException as e:   # noqa: BLE001
            results.append({"status": "runtime_error", "message": f"{type(e).__name__}: {e}"[:500], "observations": []})
    info = {"python": sys.version.split()[0],
            "cp1252": {"dec": DEC}}
    json.dump({"results": results, "info": info}, sys.stdout)


if __name__ == "__main__":
    main()
