"""vsx - bounded symbolic execution of eolib's Python source with z3."""
