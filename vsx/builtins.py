"""Builtins, builtin-type methods, stdlib stubs and the harness API of the vsx interpreter."""
import ast
import z3

from .values import *   # noqa: F401,F403
from . import cp1252

CP1252_NAMES = {"windows-1252", "cp1252", "windows_1252", "1252"}


def install(E):
    B = {}
    E.builtins = B

    # ------------------------------------------------------------------ exception hierarchy
    def mkexc(name, base=None):
        c = Cls(name, [base] if base else [], {}, module="builtins")
        B[name] = c
        return c

    be = mkexc("BaseException")
    ex = mkexc("Exception", be)
    for n in ("ValueError", "TypeError", "AttributeError", "RuntimeError", "LookupError", "ArithmeticError",
              "AssertionError", "NameError", "ImportError", "StopIteration", "OSError", "BufferError", "EOFError"):
        mkexc(n, ex)
    mkexc("IndexError", B["LookupError"])
    mkexc("KeyError", B["LookupError"])
    mkexc("ZeroDivisionError", B["ArithmeticError"])
    mkexc("OverflowError", B["ArithmeticError"])
    mkexc("NotImplementedError", B["RuntimeError"])
    mkexc("RecursionError", B["RuntimeError"])
    mkexc("NonTermination", B["RuntimeError"])
    mkexc("UnboundLocalError", B["NameError"])
    mkexc("ModuleNotFoundError", B["ImportError"])
    mkexc("UnicodeError", B["ValueError"])
    mkexc("UnicodeEncodeError", B["UnicodeError"])
    mkexc("UnicodeDecodeError", B["UnicodeError"])
    B["object"] = Cls("object", [], {}, module="builtins")
    B["None"] = None
    B["NotImplemented"] = None

    def nat(name):
        def deco(fn):
            B[name] = Native(fn, name)
            return fn
        return deco

    # ------------------------------------------------------------------ core builtins
    @nat("len")
    def b_len(x):
        if isinstance(x, (Bytes, PList)):
            return len(x.items)
        if isinstance(x, Str):
            return len(x.cps)
        if isinstance(x, PDict):
            return len(x.d) + len(x.sym)
        if isinstance(x, (str, tuple, range)):
            return len(x)
        if isinstance(x, Obj):
            f = x.cls.lookup("__len__")
            if isinstance(f, Func):
                return E.call_func(f, [x], {})
        if isinstance(x, OpaqueStr):
            raise Unsupported("len of opaque string")
        E.throw("TypeError", f"object of type '{E.type_name(x)}' has no len()")

    def minmax(is_min):
        def f(*a, **kw):
            if kw:
                raise Unsupported("min/max keyword arguments")
            if len(a) == 1:
                a = E.iterate(a[0])
                if not a:
                    E.throw("ValueError", "min()/max() arg is an empty sequence")
            r = a[0]
            for x in a[1:]:
                xv = x.v if isinstance(x, EnumVal) else x
                rv = r.v if isinstance(r, EnumVal) else r
                if not (numeric(xv) and numeric(rv)):
                    if xv is None or rv is None:
                        E.throw("TypeError", "'<' not supported between NoneType and int")
                    raise Unsupported("min/max of non-numbers")
                if isinstance(xv, int) and isinstance(rv, int):
                    r = (x if xv < rv else r) if is_min else (x if xv > rv else r)
                else:
                    r = mk_int(z3.If(zi(xv) < zi(rv), zi(xv), zi(rv)) if is_min else z3.If(zi(xv) > zi(rv), zi(xv), zi(rv)))
            return r
        return f

    B["min"] = Native(minmax(True), "min")
    B["max"] = Native(minmax(False), "max")

    @nat("abs")
    def b_abs(x):
        if isinstance(x, int):
            return abs(x)
        if isinstance(x, (SymInt, SymBool)):
            e = zi(x)
            return mk_int(z3.If(e >= 0, e, -e))
        E.throw("TypeError", "bad operand type for abs()")

    @nat("int")
    def b_int(x=0, base=None):
        if base is not None:
            raise Unsupported("int() with base")
        if isinstance(x, EnumVal):
            return x.v
        if isinstance(x, bool):
            return int(x)
        if isinstance(x, (int, SymInt)):
            return x
        if isinstance(x, SymBool):
            return mk_int(zi(x))
        if isinstance(x, FloatQuot):
            return E.float_trunc(x)
        if isinstance(x, str):
            try:
                return int(x)
            except ValueError:
                E.throw("ValueError", "invalid literal for int()")
        if x is None or isinstance(x, (PList, tuple, PDict, Obj)):
            E.throw("TypeError", "int() argument must be a string, a bytes-like object or a real number")
        raise Unsupported(f"int() of {type(x).__name__}")

    @nat("bool")
    def b_bool(x=False):
        return E.truth(x)

    @nat("range")
    def b_range(*a):
        if not 1 <= len(a) <= 3:
            E.throw("TypeError", "range expected 1 to 3 arguments")
        vals = []
        if len(a) == 1 and isinstance(a[0], SymInt):
            # range(n) is empty for every n <= 0: no need to enumerate the non-positive values
            if not E.decide(mk_bool(a[0].e > 0)):
                return range(0)
        for x in a:
            if isinstance(x, EnumVal):
                x = x.v
            if not numeric(x):
                E.throw("TypeError", "range() argument must be an integer")
            if E.range_cap is not None and isinstance(x, SymInt):
                # declared bound of the harness: loop counts decoded from symbolic data are explored up to the
                # cap only; larger counts are outside the claim (recorded in the evidence)
                E.commit()
                cap = mk_bool(x.e <= E.range_cap)
                if cap is not True:
                    E.assumptions_used.add("range-cap:%d" % E.range_cap)
                    if cap is False:
                        raise PathAbort()
                    E.add(cap.e)
                    if not E._check():
                        raise PathAbort()
            vals.append(E.concretize(x))
        if len(vals) == 3 and vals[2] == 0:
            E.throw("ValueError", "range() arg 3 must not be zero")
        r = range(*vals)
        if len(r) > max(E.LOOP_BOUND, getattr(E, "loop_bound", None) or 0):
            raise Inconclusive(f"range of {len(r)} exceeds the unwinding bound")
        return r

    @nat("tuple")
    def b_tuple(x=()):
        return tuple(E.iterate(x))

    @nat("list")
    def b_list(x=()):
        return E.mk_list(E.iterate(x))

    @nat("dict")
    def b_dict(x=None, **kw):
        d = E.mk_dict()
        if isinstance(x, PDict):
            d.d.update(x.d)
        elif x is not None:
            for pair in E.iterate(x):
                k, v = E.iterate(pair)
                d.d[E.hashable(k)] = v
        d.d.update(kw)
        return d

    @nat("isinstance")
    def b_isinstance(o, c):
        if isinstance(c, tuple):
            return any(b_isinstance(o, x) for x in c)
        if isinstance(c, Cls):
            if isinstance(o, Obj):
                return o.cls.issub(c)
            if isinstance(o, EnumVal):
                return o.cls.issub(c) or c is B["object"]
            if isinstance(o, PyExc):
                return o.cls.issub(c)
            return c is B["object"]
        if isinstance(c, Native):
            nm = c.name
            if nm == "int":
                return isinstance(o, (int, SymInt, SymBool, EnumVal))
            if nm == "bool":
                return isinstance(o, (bool, SymBool))
            if nm == "str":
                return isinstance(o, (str, Str, OpaqueStr))
            if nm == "bytes":
                return isinstance(o, Bytes) and o.kind == "bytes"
            if nm == "bytearray":
                return isinstance(o, Bytes) and o.kind == "bytearray"
            if nm == "memoryview":
                return isinstance(o, Bytes) and o.kind == "memoryview"
            if nm == "list":
                return isinstance(o, PList)
            if nm == "tuple":
                return isinstance(o, tuple)
            if nm == "dict":
                return isinstance(o, PDict)
            if nm in ("Sequence", "Reversible"):
                return isinstance(o, (PList, tuple, str, Str, OpaqueStr, Bytes, range))
            if nm == "MutableSequence":
                return isinstance(o, PList) or (isinstance(o, Bytes) and o.kind == "bytearray")
            if nm in ("Iterable", "Collection", "Sized", "Container"):
                return isinstance(o, (PList, tuple, str, Str, OpaqueStr, Bytes, range, PDict))
            if nm in ("Mapping", "MutableMapping"):
                return isinstance(o, PDict)
            if nm == "range":
                return isinstance(o, range)
        raise Unsupported("isinstance() classinfo")

    @nat("issubclass")
    def b_issubclass(a, b):
        if isinstance(a, Cls) and isinstance(b, Cls):
            return a.issub(b)
        raise Unsupported("issubclass")

    @nat("enumerate")
    def b_enumerate(x, start=0):
        return E.mk_list([(i + start, v) for i, v in enumerate(E.iterate(x))])

    @nat("zip")
    def b_zip(*a):
        return E.mk_list([tuple(t) for t in zip(*[E.iterate(x) for x in a])])

    @nat("map")
    def b_map(f, *its):
        seqs = [E.iterate(x) for x in its]
        return E.mk_list([E.call(f, list(args), {}) for args in zip(*seqs)])

    @nat("filter")
    def b_filter(f, it):
        out = []
        for v in E.iterate(it):
            keep = E.truth(v) if f is None else E.truth(E.call(f, [v], {}))
            if E.decide(keep):
                out.append(v)
        return E.mk_list(out)

    @nat("set")
    def b_set(x=()):
        return tuple(E.iterate(x))

    @nat("frozenset")
    def b_frozenset(x=()):
        return tuple(E.iterate(x))

    @nat("reversed")
    def b_reversed(x):
        return E.mk_list(list(reversed(E.iterate(x))))

    @nat("sorted")
    def b_sorted(x, key=None, reverse=False):
        items = E.iterate(x)
        keys = items if key is None else [E.call(key, [i], {}) for i in items]
        if not all(isinstance(i, (int, str, tuple)) for i in keys) or not isinstance(reverse, bool):
            raise Unsupported("sorted of symbolic values")
        try:
            order = sorted(range(len(items)), key=lambda i: keys[i], reverse=reverse)
        except TypeError:
            E.throw("TypeError", "'<' not supported between instances")
        return E.mk_list([items[i] for i in order])

    @nat("slice")
    def b_slice(*a):
        if len(a) == 1:
            return SliceObj(None, a[0], None)
        if len(a) == 2:
            return SliceObj(a[0], a[1], None)
        if len(a) == 3:
            return SliceObj(a[0], a[1], a[2])
        E.throw("TypeError", "slice expected at most 3 arguments")

    @nat("iter")
    def b_iter(x):
        return x if isinstance(x, PIter) else PIter(E.iterate(x))

    @nat("next")
    def b_next(it, *default):
        if not isinstance(it, PIter):
            E.throw("TypeError", "object is not an iterator")
        if it.pos < len(it.items):
            it.pos += 1
            return it.items[it.pos - 1]
        if default:
            return default[0]
        E.throw("StopIteration", "")

    @nat("sum")
    def b_sum(x, start=0):
        r = start
        import ast as _ast
        for v in E.iterate(x):
            r = E.binop(_ast.Add(), r, v)
        return r

    @nat("any")
    def b_any(x):
        acc = False
        for v in E.iterate(x):
            t = E.truth(v)
            if t is True:
                return True
            if t is not False:
                acc = t if acc is False else mk_bool(z3.Or(acc.e, t.e))
        return acc

    @nat("all")
    def b_all(x):
        acc = True
        for v in E.iterate(x):
            t = E.truth(v)
            if t is False:
                return False
            if t is not True:
                acc = t if acc is True else mk_bool(z3.And(acc.e, t.e))
        return acc

    @nat("ord")
    def b_ord(c):
        if isinstance(c, str) and len(c) == 1:
            return ord(c)
        if isinstance(c, Str) and len(c.cps) == 1:
            return c.cps[0]
        E.throw("TypeError", "ord() expected a character")

    @nat("chr")
    def b_chr(i):
        if isinstance(i, int):
            if not 0 <= i < 0x110000:
                E.throw("ValueError", "chr() arg not in range(0x110000)")
            return chr(i)
        E.throw_if(mk_bool(z3.Or(zi(i) < 0, zi(i) >= 0x110000)), "ValueError", "chr() arg not in range(0x110000)")
        return Str([i])

    @nat("str")
    def b_str(x=""):
        if isinstance(x, (str, Str)):
            return x
        if isinstance(x, bool):
            return str(x)
        if isinstance(x, int):
            return str(x)
        if isinstance(x, Obj) and x.cls.issub(B["BaseException"]) and x.cls.lookup("__str__") is NOTSET:
            a = x.d.get("args", ())
            if len(a) == 0:
                return ""
            if len(a) == 1 and isinstance(a[0], (str, Str)):
                return a[0]
        return OPAQUE

    B["repr"] = Native(lambda x=None: OPAQUE, "repr")
    B["print"] = Native(lambda *a, **k: None, "print")
    B["id"] = Native(lambda x: id(x), "id")
    B["callable"] = Native(lambda x: isinstance(x, (Func, Native, Bound, Cls, StaticM)), "callable")

    @nat("type")
    def b_type(x):
        if isinstance(x, Obj):
            return x.cls
        if isinstance(x, EnumVal):
            return x.cls
        for nm, pred in (("bool", lambda v: isinstance(v, (bool, SymBool))), ("int", lambda v: isinstance(v, (int, SymInt))),
                         ("str", lambda v: isinstance(v, (str, Str, OpaqueStr))), ("list", lambda v: isinstance(v, PList)),
                         ("tuple", lambda v: isinstance(v, tuple)), ("dict", lambda v: isinstance(v, PDict))):
            if pred(x):
                return B[nm]
        if isinstance(x, Bytes):
            return B[x.kind]
        raise Unsupported("type()")

    @nat("hasattr")
    def b_hasattr(o, name):
        try:
            E.getattr(o, name)
            return True
        except PyExc as e:
            if e.cls.issub(B["AttributeError"]):
                return False
            raise

    @nat("getattr")
    def b_getattr(o, name, *default):
        try:
            return E.getattr(o, name)
        except PyExc as e:
            if default and e.cls.issub(B["AttributeError"]):
                return default[0]
            raise

    @nat("setattr")
    def b_setattr(o, name, v):
        E.setattr(o, name, v)

    @nat("divmod")
    def b_divmod(a, b):
        import ast as _ast
        return (E.binop(_ast.FloorDiv(), a, b), E.binop(_ast.Mod(), a, b))

    @nat("pow")
    def b_pow(a, b, m=None):
        import ast as _ast
        r = E.binop(_ast.Pow(), a, b)
        return r if m is None else E.binop(_ast.Mod(), r, m)

    # ------------------------------------------------------------------ bytes-like constructors
    def codec_name(encoding):
        if not isinstance(encoding, str):
            raise Unsupported("text encoding must be a string")
        e = encoding.lower().replace("_", "-")
        if e in CP1252_NAMES or e == "windows-1252":
            return "cp1252"
        if e in ("latin-1", "latin1", "iso-8859-1", "iso8859-1", "l1", "8859"):
            return "latin-1"
        if e in ("ascii", "us-ascii"):
            return "ascii"
        raise Unsupported(f"text encoding {encoding!r}")

    E.codec_name = codec_name

    def encode_text(x, encoding, errors):
        codec = codec_name(encoding)
        if errors not in ("replace", "strict"):
            raise Unsupported(f"codec error handler {errors!r}")
        if isinstance(x, OpaqueStr):
            raise Unsupported("encoding an opaque string")
        cps = x.cps if isinstance(x, Str) else [ord(c) for c in x]
        out = []
        if codec == "cp1252":
            E.assumptions_used.add("cp1252-table")
        limit = {"latin-1": 256, "ascii": 128}.get(codec)
        for c in cps:
            if codec == "cp1252":
                if errors == "strict":
                    ok = cp1252.encodable(c)
                    if ok is False:
                        E.throw("UnicodeEncodeError", "character maps to <undefined>")
                    if ok is not True:
                        E.throw_if(mk_bool(z3.Not(ok)), "UnicodeEncodeError", "character maps to <undefined>")
                out.append(cp1252.enc(c))
            else:
                if isinstance(c, int):
                    if c >= limit:
                        if errors == "strict":
                            E.throw("UnicodeEncodeError", "ordinal not in range")
                        out.append(0x3F)
                    else:
                        out.append(c)
                else:
                    e = zi(c)
                    if errors == "strict":
                        E.throw_if(mk_bool(e >= limit), "UnicodeEncodeError", "ordinal not in range")
                        out.append(mk_int(e, 8))
                    else:
                        out.append(mk_int(z3.If(e < limit, e, z3.IntVal(0x3F)), 8))
        return out

    def bytes_items(a, kw, what):
        if not a:
            return []
        x = a[0]
        if isinstance(x, (Str, str, OpaqueStr)):
            enc = a[1] if len(a) > 1 else kw.get("encoding")
            err = a[2] if len(a) > 2 else kw.get("errors", "strict")
            if enc is None:
                E.throw("TypeError", "string argument without an encoding")
            return encode_text(x, enc, err)
        if len(a) > 1 or kw:
            E.throw("TypeError", "encoding without a string argument")
        if isinstance(x, Bytes):
            return list(x.items)
        if isinstance(x, EnumVal):
            x = x.v
        if numeric(x) and not isinstance(x, (PList, tuple)):
            n = E.concretize(x)
            if n < 0:
                E.throw("ValueError", "negative count")
            if n > 1 << 16:
                raise Inconclusive("byte buffer larger than 65536")
            return [0] * n
        if isinstance(x, (PList, tuple, range)):
            items = E.iterate(x)
            out = []
            for v in items:
                E.check_byte(v)
                if isinstance(v, EnumVal):
                    v = v.v
                if isinstance(v, (bool, SymBool)):
                    v = mk_int(zi(v), 1)
                out.append(as_byte(v))
            return out
        if x is None:
            E.throw("TypeError", f"cannot convert 'NoneType' object to {what}")
        raise Unsupported(f"{what}() of {type(x).__name__}")

    B["bytearray"] = Native(lambda *a, **kw: E.mk_bytes(bytes_items(a, kw, "bytearray"), True, "bytearray"), "bytearray")
    B["bytes"] = Native(lambda *a, **kw: E.mk_bytes(bytes_items(a, kw, "bytes"), False, "bytes"), "bytes")

    @nat("memoryview")
    def b_memoryview(x):
        if not isinstance(x, Bytes):
            E.throw("TypeError", "memoryview: a bytes-like object is required")
        if x.mutable and x.kind == "bytearray":
            # a view of a whole bytearray shares its cells (reads see later writes to the bytearray and writes through
            # the view reach it); slices of a view are still modelled as copies
            E.assumptions_used.add("memoryview-slices-as-copies")
            mv = E.mk_bytes([], True, "memoryview", x)
            mv.items = x.items
            return mv
        E.assumptions_used.add("memoryview-as-copy")
        return E.mk_bytes(x.items, False, "memoryview", x.base if x.kind == "memoryview" else x)

    # ------------------------------------------------------------------ float division lemma
    def float_to_int(q, mode="trunc"):
        """int(a / k), math.floor(a / k), math.ceil(a / k): integer division with the matching rounding, valid
        when the float quotient is exact enough.  Side lemma (proved on every run in QF_BVFP over [lo,hi] for
        each (divisor, mode) used) + obligation that a is in [lo,hi]."""
        n, d = q.n, q.d
        if isinstance(d, EnumVal):
            d = d.v
        if not isinstance(d, int) or isinstance(d, bool) or d <= 0:
            raise Unsupported("float division by a non-constant or non-positive divisor")
        lo, hi = E.fp_range
        E.fp_uses.append((d, mode))
        if isinstance(n, (int, bool)):
            n = int(n)
            if not lo <= n <= hi:
                raise Unsupported("float division operand outside the lemma range")
            if mode == "floor":
                return n // d
            if mode == "ceil":
                return -((-n) // d)
            a = abs(n) // d
            return a if n >= 0 else -a
        e = zi(n)
        E.require(mk_bool(z3.And(e >= lo, e <= hi)), "float division operand outside the lemma range")
        E.assumptions_used.add("float-division-lemma")
        if mode == "floor":
            return mk_int(e / d)
        if mode == "ceil":
            return mk_int(-((-e) / d))
        return mk_int(z3.If(e >= 0, e / d, -((-e) / d)))

    def float_trunc(q):
        return float_to_int(q, "trunc")

    E.float_to_int = float_to_int
    E.float_trunc = float_trunc
    B["float"] = Native(lambda *a: (_ for _ in ()).throw(Unsupported("float()")), "float")
    def b_round(x, nd=None):
        if isinstance(x, EnumVal):
            x = x.v
        if isinstance(x, (int, SymInt)) and nd is None:
            return x
        if isinstance(x, FloatQuot) and nd is None:
            raise Unsupported("round() of a float quotient (banker's rounding is not modelled)")
        raise Unsupported("round()")

    B["round"] = Native(b_round, "round")

    # decorators referenced by name only
    for n in ("staticmethod", "classmethod", "property"):
        B[n] = Native(lambda *a, **k: (_ for _ in ()).throw(Unsupported("decorator used as a function")), n)
    for n in ("int", "bool", "str", "bytes", "bytearray", "memoryview", "list", "tuple", "dict"):
        pass

    install_methods(E)
    install_stubs(E)
    install_harness_api(E)


# ====================================================================================== methods
def install_methods(E):
    M = {}
    E.methods = M

    def idx_cells_equal(E_, cell, val):
        return E_.equal(cell, val)

    def m_find(E_, o, sub, start=0, end=None):
        if not isinstance(sub, Bytes):
            if numeric(sub):
                sub = Bytes([sub], False)
            else:
                E_.throw("TypeError", "argument should be integer or bytes-like object")
        n = len(sub.items)
        items = o.items
        lo = E_.concretize(start)
        hi = len(items) if end is None else E_.concretize(end)
        lo, hi, _ = slice(lo, hi).indices(len(items))
        if n == 0:
            return lo if lo <= hi else -1
        # predicated first-match search: result = first i with items[i:i+n] == sub
        res = -1
        conds = []
        for i in range(lo, hi - n + 1):
            c = True
            for k in range(n):
                ck = E_.equal(items[i + k], sub.items[k])
                if ck is False:
                    c = False
                    break
                if ck is not True:
                    c = ck if c is True else mk_bool(z3.And(c.e, ck.e))
            if c is False:
                continue
            conds.append((i, c))
            if c is True:
                break
        # build nested ite from the back
        r = -1
        for i, c in reversed(conds):
            if c is True:
                r = i
            else:
                r = mk_int(z3.If(c.e, z3.IntVal(i), zi(r)))
        return r

    def m_rfind(E_, o, sub):
        if numeric(sub):
            sub = Bytes([sub], False)
        if not isinstance(sub, Bytes) or len(sub.items) != 1:
            raise Unsupported("rfind with multi-byte needle")
        r = -1
        for i, x in enumerate(o.items):
            c = E_.equal(x, sub.items[0])
            if c is True:
                r = i
            elif c is not False:
                r = mk_int(z3.If(c.e, z3.IntVal(i), zi(r)))
        return r

    def m_index(E_, o, sub, *a):
        r = m_find(E_, o, sub, *a)
        E_.throw_if(E_.equal(r, -1), "ValueError", "subsection not found")
        return r

    def m_decode(E_, o, encoding="utf-8", errors="strict"):
        codec = E_.codec_name(encoding)
        if errors not in ("replace", "strict"):
            raise Unsupported(f"codec error handler {errors!r}")
        out = []
        if codec == "latin-1":
            return Str(list(o.items))
        if codec == "ascii":
            for b in o.items:
                hi = E_.compare_ge(b, 128)
                if errors == "strict":
                    E_.throw_if(hi, "UnicodeDecodeError", "ordinal not in range(128)")
                    out.append(b)
                elif hi is False:
                    out.append(b)
                elif hi is True:
                    out.append(0xFFFD)
                else:
                    out.append(mk_int(z3.If(hi.e, z3.IntVal(0xFFFD), zi(b))))
            return Str(out)
        E_.assumptions_used.add("cp1252-table")
        for b in o.items:
            if errors == "strict":
                bad = False
                for ub in cp1252.UNDEFINED_BYTES:
                    c = E_.equal(b, ub)
                    if c is True:
                        bad = True
                        break
                    if c is not False:
                        bad = c if bad is False else mk_bool(z3.Or(bad.e, c.e))
                E_.throw_if(bad, "UnicodeDecodeError", "character maps to <undefined>")
            out.append(cp1252.dec(b))
        return Str(out)

    def need_mutable(E_, o):
        if not o.mutable:
            E_.throw("AttributeError", f"'{o.kind}' object has no such mutating method")

    def m_b_append(E_, o, v):
        need_mutable(E_, o)
        E_.check_byte(v)
        if isinstance(v, EnumVal):
            v = v.v
        if isinstance(v, (bool, SymBool)):
            v = mk_int(zi(v), 1)
        E_.structural(o)
        o.items.append(as_byte(v))

    def m_b_extend(E_, o, x):
        need_mutable(E_, o)
        if isinstance(x, Bytes):
            src = list(x.items)
        else:
            src = E_.iterate(x)
            for v in src:
                E_.check_byte(v)
            src = [as_byte(v) for v in src]
        E_.structural(o)
        o.items.extend(src)

    def m_b_reverse(E_, o):
        need_mutable(E_, o)
        if E_.g is True or o.serial > E_.region_serial:
            o.items.reverse()
        else:
            rev = list(reversed(o.items))
            o.items[:] = [E_.merged(n, old) for n, old in zip(rev, o.items)]

    def m_b_copy(E_, o):
        return E_.mk_bytes(o.items, o.mutable, o.kind)

    def m_b_clear(E_, o):
        need_mutable(E_, o)
        E_.structural(o)
        del o.items[:]

    def m_b_pop(E_, o, i=-1):
        need_mutable(E_, o)
        if not o.items:
            E_.throw("IndexError", "pop from empty bytearray")
        k = E_.index_of(i, len(o.items))
        E_.structural(o)
        return o.items.pop(k)

    def m_b_insert(E_, o, i, v):
        need_mutable(E_, o)
        E_.check_byte(v)
        E_.structural(o)
        o.items.insert(E_.concretize(i), v)

    def m_b_count(E_, o, sub):
        if isinstance(sub, Bytes):
            if len(sub.items) != 1:
                raise Unsupported("count of multi-byte needle")
            sub = sub.items[0]
        r = 0
        for x in o.items:
            c = E_.equal(x, sub)
            if c is True:
                r = r + 1 if isinstance(r, int) else mk_int(zi(r) + 1)
            elif c is not False:
                r = mk_int(zi(r) + z3.If(c.e, 1, 0))
        return r

    def m_b_tobytes(E_, o):
        return E_.mk_bytes(o.items, False, "bytes")

    def strip_set(E_, chars):
        if chars is None:
            return [9, 10, 11, 12, 13, 32]
        if not isinstance(chars, Bytes) or not all(isinstance(c, int) for c in chars.items):
            raise Unsupported("strip with symbolic character set")
        return list(chars.items)

    def in_set(E_, x, cs):
        acc = False
        for c in cs:
            t = E_.equal(x, c)
            if t is True:
                return True
            if t is not False:
                acc = t if acc is False else mk_bool(z3.Or(acc.e, t.e))
        return acc

    def m_b_rstrip(E_, o, chars=None):
        cs = strip_set(E_, chars)
        n = len(o.items)
        while n > 0 and E_.decide(in_set(E_, o.items[n - 1], cs)):
            n -= 1
        return E_.mk_bytes(o.items[:n], o.mutable, o.kind if o.kind != "memoryview" else "bytes")

    def m_b_lstrip(E_, o, chars=None):
        cs = strip_set(E_, chars)
        k = 0
        while k < len(o.items) and E_.decide(in_set(E_, o.items[k], cs)):
            k += 1
        return E_.mk_bytes(o.items[k:], o.mutable, o.kind if o.kind != "memoryview" else "bytes")

    def m_b_strip(E_, o, chars=None):
        return m_b_rstrip(E_, m_b_lstrip(E_, o, chars), chars)

    def m_b_partition(E_, o, sep):
        if not isinstance(sep, Bytes) or len(sep.items) == 0:
            raise Unsupported("partition separator")
        i = E_.concretize(m_find(E_, o, sep))
        kind = o.kind if o.kind != "memoryview" else "bytes"
        if i < 0:
            return (E_.mk_bytes(o.items, o.mutable, kind), E_.mk_bytes([], o.mutable, kind), E_.mk_bytes([], o.mutable, kind))
        n = len(sep.items)
        return (E_.mk_bytes(o.items[:i], o.mutable, kind), E_.mk_bytes(o.items[i:i + n], o.mutable, kind), E_.mk_bytes(o.items[i + n:], o.mutable, kind))

    def m_b_split(E_, o, sep=None, maxsplit=-1):
        if sep is None or not isinstance(sep, Bytes) or len(sep.items) == 0:
            raise Unsupported("split separator")
        out = []
        rest = o
        k = E_.concretize(maxsplit)
        while k != 0:
            head, s_, tail = m_b_partition(E_, rest, sep)
            if len(s_.items) == 0:
                break
            out.append(head)
            rest = tail
            k -= 1
        out.append(rest if rest is not o else E_.mk_bytes(o.items, o.mutable, o.kind if o.kind != "memoryview" else "bytes"))
        return E_.mk_list(out)

    def m_b_startswith(E_, o, prefix):
        if not isinstance(prefix, Bytes):
            raise Unsupported("startswith argument")
        n = len(prefix.items)
        if n > len(o.items):
            return False
        return E_.equal(Bytes(o.items[:n], False), Bytes(prefix.items, False))

    def m_b_endswith(E_, o, suffix):
        if not isinstance(suffix, Bytes):
            raise Unsupported("endswith argument")
        n = len(suffix.items)
        if n > len(o.items):
            return False
        return E_.equal(Bytes(o.items[len(o.items) - n:], False), Bytes(suffix.items, False))

    def m_b_join(E_, o, parts):
        out = []
        first = True
        for p_ in E_.iterate(parts):
            if not isinstance(p_, Bytes):
                E_.throw("TypeError", "sequence item: expected a bytes-like object")
            if not first:
                out.extend(o.items)
            out.extend(p_.items)
            first = False
        return E_.mk_bytes(out, o.mutable, o.kind if o.kind != "memoryview" else "bytes")

    def m_b_replace(E_, o, old, new, count=-1):
        if not (isinstance(old, Bytes) and isinstance(new, Bytes) and len(old.items) == 1 and len(new.items) == 1) or count != -1:
            raise Unsupported("bytes.replace other than single byte for single byte")
        a, b = old.items[0], new.items[0]
        out = []
        for x in o.items:
            c = E_.equal(x, a)
            if c is True:
                out.append(b)
            elif c is False:
                out.append(x)
            else:
                out.append(mk_int(z3.If(c.e, zi(b), zi(x)), 8))
        return E_.mk_bytes(out, o.mutable, o.kind if o.kind != "memoryview" else "bytes")

    def m_b_translate(E_, o, table, delete=None):
        if delete is not None or not isinstance(table, Bytes) or len(table.items) != 256:
            raise Unsupported("translate arguments")
        if not all(isinstance(t, int) for t in table.items):
            raise Unsupported("translate with a symbolic table")
        out = []
        for x in o.items:
            out.append(table.items[x] if isinstance(x, int) else E_.table_lookup(table.items, zi(x)))
        return E_.mk_bytes(out, o.mutable, o.kind if o.kind != "memoryview" else "bytes")

    def m_b_hex(E_, o):
        if all(isinstance(i, int) for i in o.items):
            return bytes(o.items).hex()
        return OPAQUE

    for k, f in dict(find=m_find, rfind=m_rfind, index=m_index, decode=m_decode, append=m_b_append, extend=m_b_extend,
                     reverse=m_b_reverse, copy=m_b_copy, clear=m_b_clear, pop=m_b_pop, insert=m_b_insert,
                     count=m_b_count, tobytes=m_b_tobytes, hex=m_b_hex, rstrip=m_b_rstrip, lstrip=m_b_lstrip, strip=m_b_strip,
                     partition=m_b_partition, split=m_b_split, startswith=m_b_startswith, endswith=m_b_endswith,
                     translate=m_b_translate, join=m_b_join, replace=m_b_replace).items():
        M[("bytes", k)] = f

    # ---- list
    def m_l_append(E_, o, v):
        E_.structural(o)
        o.items.append(v)

    def m_l_extend(E_, o, x):
        src = E_.iterate(x)
        E_.structural(o)
        o.items.extend(src)

    def m_l_pop(E_, o, i=-1):
        if not o.items:
            E_.throw("IndexError", "pop from empty list")
        k = E_.index_of(i, len(o.items))
        E_.structural(o)
        return o.items.pop(k)

    def m_l_insert(E_, o, i, v):
        E_.structural(o)
        o.items.insert(E_.concretize(i), v)

    def m_l_reverse(E_, o):
        E_.structural(o)
        o.items.reverse()

    def m_l_clear(E_, o):
        E_.structural(o)
        del o.items[:]

    def m_l_index(E_, o, v):
        for i, x in enumerate(o.items):
            if E_.decide(E_.equal(x, v)):
                return i
        E_.throw("ValueError", "value is not in list")

    def m_seq_count(E_, o, v):
        items = o.items if isinstance(o, PList) else list(o)
        return m_b_count(E_, Bytes(items, False), v)

    for k, f in dict(append=m_l_append, extend=m_l_extend, pop=m_l_pop, insert=m_l_insert, reverse=m_l_reverse,
                     clear=m_l_clear, index=m_l_index, count=m_seq_count,
                     copy=lambda E_, o: E_.mk_list(o.items)).items():
        M[("list", k)] = f
    M[("tuple", "count")] = m_seq_count
    M[("tuple", "index")] = lambda E_, o, v: m_l_index(E_, PList(list(o)), v)

    # ---- dict
    def m_d_get(E_, o, k, default=None):
        r = E_.dict_get(o, k)
        return default if r is NOTSET else r

    def m_d_setdefault(E_, o, k, default=None):
        E_.structural(o)
        return o.d.setdefault(E_.hashable(k), default)

    def m_d_pop(E_, o, k, *default):
        E_.structural(o)
        kk = E_.hashable(k)
        if kk in o.d:
            return o.d.pop(kk)
        if default:
            return default[0]
        E_.throw("KeyError", str(kk))

    def m_d_update(E_, o, other=None, **kw):
        E_.structural(o)
        if isinstance(other, PDict):
            o.d.update(other.d)
        elif other is not None:
            raise Unsupported("dict.update argument")
        o.d.update(kw)

    M[("dict", "get")] = m_d_get
    M[("dict", "setdefault")] = m_d_setdefault
    M[("dict", "pop")] = m_d_pop
    M[("dict", "update")] = m_d_update
    M[("dict", "items")] = lambda E_, o: E_.mk_list([(k, v) for k, v in o.d.items()])
    M[("dict", "keys")] = lambda E_, o: E_.mk_list(list(o.d.keys()))
    M[("dict", "values")] = lambda E_, o: E_.mk_list(list(o.d.values()))
    M[("dict", "copy")] = lambda E_, o: E_.mk_dict(o.d)

    # ---- str (concrete strings delegate to Python when all arguments are concrete)
    def str_method(name):
        def f(E_, o, *a, **kw):
            if name == "encode":
                enc = a[0] if a else kw.get("encoding", "utf-8")
                err = a[1] if len(a) > 1 else kw.get("errors", "strict")
                return E_.call(E_.builtins["bytes"], [o, enc, err], {})
            if name == "format":
                if isinstance(o, str) and all(isinstance(x, (str, int)) for x in list(a) + list(kw.values())):
                    try:
                        return o.format(*a, **kw)
                    except (ValueError, IndexError, KeyError, TypeError) as ex:
                        E_.throw(type(ex).__name__, str(ex))
                return OPAQUE
            if name in ("ljust", "rjust", "zfill") and isinstance(o, Str) and a and isinstance(a[0], int) and (len(a) == 1 or (isinstance(a[1], str) and len(a[1]) == 1)):
                fill = ord("0") if name == "zfill" else (ord(a[1]) if len(a) > 1 else 32)
                if name == "zfill":
                    raise Unsupported("str.zfill on symbolic text")
                pad = [fill] * max(0, a[0] - len(o.cps))
                return Str(list(o.cps) + pad) if name == "ljust" else Str(pad + list(o.cps))
            if name in ("strip", "rstrip", "lstrip") and isinstance(o, Str) and (not a or a[0] is None or isinstance(a[0], str)):
                cs = [ord(c) for c in a[0]] if a and a[0] is not None else [9, 10, 11, 12, 13, 28, 29, 30, 31, 32, 0x85, 0xA0, 0x1680] + list(range(0x2000, 0x200B)) + [0x2028, 0x2029, 0x202F, 0x205F, 0x3000]
                cps = list(o.cps)
                if name in ("strip", "rstrip"):
                    while cps and E_.decide(in_set(E_, cps[-1], cs)):
                        cps.pop()
                if name in ("strip", "lstrip"):
                    while cps and E_.decide(in_set(E_, cps[0], cs)):
                        cps.pop(0)
                return Str(cps)
            if name == "isascii" and isinstance(o, Str) and not a:
                acc = True
                for c in o.cps:
                    t = E_.compare_lt(c, 128) if hasattr(E_, "compare_lt") else (c < 128 if isinstance(c, int) else mk_bool(zi(c) < 128))
                    if t is False:
                        return False
                    if t is not True:
                        acc = t if acc is True else mk_bool(z3.And(acc.e, t.e))
                return acc
            if name in ("startswith", "endswith") and len(a) == 1 and isinstance(a[0], (str, Str)) and isinstance(o, (str, Str)):
                oc = E_.seq_of(o)[1]
                ac = E_.seq_of(a[0])[1]
                if len(ac) > len(oc):
                    return False
                part = oc[:len(ac)] if name == "startswith" else oc[len(oc) - len(ac):]
                return E_.equal(Str(list(part)), Str(list(ac)))
            if isinstance(o, str) and all(isinstance(x, (str, int)) or x is None for x in a) and not kw:
                r = getattr(o, name)(*a)
                if isinstance(r, list):
                    return E_.mk_list(r)
                return r
            if name == "replace" and isinstance(o, Str) and len(a) == 2 and all(isinstance(x, str) and len(x) == 1 for x in a):
                old_cp, new_cp = ord(a[0]), ord(a[1])
                out = []
                for c in o.cps:
                    t = E_.equal(c, old_cp)
                    out.append(new_cp if t is True else c if t is False else mk_int(z3.If(t.e, z3.IntVal(new_cp), zi(c))))
                return Str(out)
            if name in ("find", "index", "count") and isinstance(o, Str) and len(a) == 1 and isinstance(a[0], str) and len(a[0]) == 1:
                b_ = Bytes(list(o.cps), False)
                needle = Bytes([ord(a[0])], False)
                m_ = E_.methods[("bytes", name)]
                return m_(E_, b_, needle)
            if name == "join" and isinstance(o, str):
                parts = E_.iterate(a[0])
                if all(isinstance(p, str) for p in parts):
                    return o.join(parts)
                if any(isinstance(p, OpaqueStr) for p in parts):
                    return OPAQUE
                if o == "":
                    out = []
                    for p in parts:
                        out.extend(E_.seq_of(p)[1])
                    return Str(out)
            raise Unsupported(f"str.{name} on symbolic text")
        return f

    for name in ("ljust", "rjust", "zfill", "center", "isascii", "isalpha", "isalnum", "isspace", "partition", "rpartition", "splitlines", "swapcase", "casefold",
                 "removeprefix", "removesuffix", "rfind", "rindex", "expandtabs",
                 "encode", "format", "join", "lower", "upper", "strip", "isdigit", "startswith", "endswith", "split",
                 "replace", "rstrip", "lstrip", "find", "index", "count", "isupper", "islower", "rsplit", "title", "capitalize"):
        M[("str", name)] = str_method(name)

    # ---- int
    def m_i_to_bytes(E_, o, length=1, byteorder="big", signed=False):
        if not isinstance(length, int) or byteorder not in ("big", "little") or not isinstance(signed, bool):
            raise Unsupported("int.to_bytes with symbolic length / byte order")
        if isinstance(o, EnumVal):
            o = o.v
        if isinstance(o, bool):
            o = int(o)
        if isinstance(o, int):
            try:
                return E_.mk_bytes(list(o.to_bytes(length, byteorder, signed=signed)), False, "bytes")
            except OverflowError as ex:
                E_.throw("OverflowError", str(ex))
        x = zi(o)
        span = 256 ** length
        if signed:
            E_.throw_if(mk_bool(z3.Or(x < -(span // 2), x >= span // 2)), "OverflowError", "int too big to convert")
            x = z3.If(x < 0, x + span, x)
        else:
            E_.throw_if(mk_bool(x < 0), "OverflowError", "can't convert negative int to unsigned")
            E_.throw_if(mk_bool(x >= span), "OverflowError", "int too big to convert")
        items = [mk_int((x / (256 ** i)) % 256, 8) for i in range(length)]
        if byteorder == "big":
            items.reverse()
        return E_.mk_bytes(items, False, "bytes")

    def m_i_from_bytes(E_, b, byteorder="big", signed=False):
        if byteorder not in ("big", "little") or not isinstance(signed, bool):
            raise Unsupported("int.from_bytes with symbolic byte order")
        items = list(E_.iterate(b))
        if byteorder == "big":
            items.reverse()
        if all(isinstance(i, int) for i in items):
            return int.from_bytes(bytes(items), "little", signed=signed)
        acc = z3.IntVal(0)
        for i, v in enumerate(items):
            acc = acc + zi(v) * (256 ** i)
        if signed and items:
            span = 256 ** len(items)
            acc = z3.If(acc >= span // 2, acc - span, acc)
        return mk_int(z3.simplify(acc))

    def m_i_bit_length(E_, o):
        if isinstance(o, EnumVal):
            o = o.v
        if isinstance(o, int):
            return o.bit_length()
        x = zi(o)
        a = z3.If(x < 0, -x, x)
        E_.require(mk_bool(a < 2 ** 64), "bit_length of an integer beyond 64 bits")
        acc = z3.IntVal(0)
        for k in range(64):
            acc = acc + z3.If(a >= 2 ** k, 1, 0)
        return mk_int(acc)

    M[("int", "to_bytes")] = m_i_to_bytes
    M[("int", "from_bytes")] = m_i_from_bytes
    M[("int", "bit_length")] = m_i_bit_length


# ====================================================================================== stubs
def install_stubs(E):
    S = {}
    E.stubs = S
    B = E.builtins

    def module(name, **ns):
        def mk(E_):
            m = Module(name)
            m.ns["__name__"] = name
            m.ns.update(ns)
            return m
        return mk

    inert = Native(lambda *a, **k: None, "typing-construct")
    ident_deco = Native(lambda f=None, *a, **k: f, "decorator")
    S["__future__"] = module("__future__", annotations=None)
    typing_ns = {n: inert for n in ("Optional", "Union", "Iterable", "List", "Tuple", "Dict", "Any", "Callable", "Sequence",
                                   "Iterator", "Type", "TypeVar", "Generic", "Set", "Mapping", "Final", "ClassVar", "Literal")}
    typing_ns["cast"] = Native(lambda t, v: v, "cast")
    typing_ns["TYPE_CHECKING"] = False
    S["typing"] = module("typing", **typing_ns)
    abc_ns = dict(typing_ns)
    for n in ("Sequence", "MutableSequence", "Iterable", "Collection", "Sized", "Container", "Mapping", "MutableMapping", "Reversible", "Iterator"):
        abc_ns[n] = Native(lambda *a, **k: None, n)       # usable in annotations / subscripts and as isinstance() classinfo
    S["collections.abc"] = module("collections.abc", **abc_ns)
    S["collections"] = module("collections")

    abc_cls = Cls("ABC", [], {}, module="abc")
    S["abc"] = module("abc", ABC=abc_cls, abstractmethod=ident_deco, abstractproperty=ident_deco, ABCMeta=Cls("ABCMeta", [], {}, module="abc"))

    enum_meta = Cls("EnumMeta", [], {}, module="enum")
    int_enum = Cls("IntEnum", [], {}, enum_meta, module="enum")
    int_enum.is_enum = False
    S["enum"] = module("enum", IntEnum=int_enum, EnumMeta=enum_meta, EnumType=enum_meta)

    def mk_random(E_):
        m = Module("random")
        m.ns["__name__"] = "random"

        def randrange(a, b=None, step=1):
            if step != 1:
                raise Unsupported("randrange step")
            if b is None:
                a, b = 0, a
            E_.assumptions_used.add("randrange-contract")
            E_.throw_if(E_.compare_ge(a, b), "ValueError", "empty range for randrange()")
            E_.randcalls += 1
            name = f"rand{E_.randcalls}"
            return E_.new_input_int(name, a, E_.int_sub1(b), kind="random")

        def randint(a, b):
            E_.assumptions_used.add("randrange-contract")
            E_.throw_if(E_.compare_ge(a, E_.int_add1(b)), "ValueError", "empty range for randint()")
            E_.randcalls += 1
            return E_.new_input_int(f"rand{E_.randcalls}", a, b, kind="random")

        m.ns["randrange"] = Native(randrange, "random.randrange")
        m.ns["randint"] = Native(randint, "random.randint")
        return m

    S["random"] = mk_random

    def mk_math(E_):
        m = Module("math")
        m.ns["__name__"] = "math"

        def rounding(mode):
            def f(x):
                if isinstance(x, FloatQuot):
                    return E_.float_to_int(x, mode)
                if isinstance(x, EnumVal):
                    x = x.v
                if isinstance(x, (int, SymInt)) and not isinstance(x, bool):
                    return x
                if isinstance(x, (bool, SymBool)):
                    return mk_int(zi(x))
                raise Unsupported("math.%s of %s" % (mode, type(x).__name__))
            return f
        m.ns["ceil"] = Native(rounding("ceil"), "math.ceil")
        m.ns["floor"] = Native(rounding("floor"), "math.floor")
        m.ns["trunc"] = Native(rounding("trunc"), "math.trunc")
        return m

    S["math"] = mk_math

    def mk_struct(E_):
        m = Module("struct")
        m.ns["__name__"] = "struct"
        err = Cls("error", [B["Exception"]], {}, module="struct")
        m.ns["error"] = err
        SIZES = {"B": (1, False), "b": (1, True), "H": (2, False), "h": (2, True), "I": (4, False), "i": (4, True),
                 "L": (4, False), "l": (4, True), "Q": (8, False), "q": (8, True), "?": (1, False), "x": (1, None), "c": (1, None)}

        def parse(fmt):
            if isinstance(fmt, Bytes):
                fmt = bytes(fmt.items).decode("ascii") if all(isinstance(i, int) for i in fmt.items) else None
            if not isinstance(fmt, str):
                raise Unsupported("struct format is not a concrete string")
            order = "little"
            body = fmt.replace(" ", "")
            if body[:1] in "<>!=@":
                if body[0] == "@":
                    raise Unsupported("struct native alignment")
                order = "little" if body[0] in "<" else "big"
                if body[0] == "=":
                    order = "little"
                body = body[1:]
            else:
                raise Unsupported("struct format without an explicit byte order (native alignment)")
            codes = []
            num = ""
            for ch in body:
                if ch.isdigit():
                    num += ch
                    continue
                if ch not in SIZES or ch == "c":
                    raise Unsupported(f"struct format code {ch!r}")
                codes.extend([ch] * (int(num) if num else 1))
                num = ""
            return order, codes

        def calcsize(fmt):
            return sum(SIZES[c][0] for c in parse(fmt)[1])

        def pack(fmt, *vals):
            order, codes = parse(fmt)
            out = []
            vals = list(vals)
            if len([c for c in codes if c != "x"]) != len(vals):
                E_.throw(err, "pack expected a different number of items")
            for c in codes:
                size, signed = SIZES[c]
                if c == "x":
                    out.append(0)
                    continue
                v = vals.pop(0)
                if c == "?":
                    t = E_.truth(v)
                    out.append(int(t) if isinstance(t, bool) else mk_int(z3.If(t.e, 1, 0), 8))
                    continue
                if isinstance(v, EnumVal):
                    v = v.v
                if not numeric(v):
                    E_.throw(err, "required argument is not an integer")
                span = 256 ** size
                lo, hi = (-(span // 2), span // 2) if signed else (0, span)
                if isinstance(v, (int, bool)):
                    if not (lo <= v < hi):
                        E_.throw(err, "argument out of range")
                else:
                    E_.throw_if(mk_bool(z3.Or(zi(v) < lo, zi(v) >= hi)), err, "argument out of range")
                b = E_.methods[("int", "to_bytes")](E_, v, size, order, signed)
                out.extend(b.items)
            return E_.mk_bytes(out, False, "bytes")

        def unpack_from(fmt, buf, offset=0):
            order, codes = parse(fmt)
            items = list(E_.iterate(buf))
            off = E_.concretize(offset)
            need = sum(SIZES[c][0] for c in codes)
            if off < 0:
                off += len(items)
            if off < 0 or len(items) - off < need:
                E_.throw(err, "unpack_from requires a larger buffer")
            out = []
            for c in codes:
                size, signed = SIZES[c]
                part = items[off:off + size]
                off += size
                if c == "x":
                    continue
                v = E_.methods[("int", "from_bytes")](E_, Bytes(part, False), order, bool(signed))
                if c == "?":
                    v = E_.b_not(E_.equal(v, 0))
                out.append(v)
            return tuple(out)

        def unpack(fmt, buf):
            order, codes = parse(fmt)
            items = list(E_.iterate(buf))
            if len(items) != sum(SIZES[c][0] for c in codes):
                E_.throw(err, "unpack requires a buffer of the exact size")
            return unpack_from(fmt, buf, 0)

        m.ns["calcsize"] = Native(calcsize, "struct.calcsize")
        m.ns["pack"] = Native(pack, "struct.pack")
        m.ns["unpack"] = Native(unpack, "struct.unpack")
        m.ns["unpack_from"] = Native(unpack_from, "struct.unpack_from")
        return m

    S["struct"] = mk_struct

    def mk_copy(E_):
        m = Module("copy")
        m.ns["__name__"] = "copy"

        def shallow(x):
            if isinstance(x, Obj):
                f = x.cls.lookup("__copy__")
                if isinstance(f, Func):
                    return E_.call(f, [x], {})
                o = E_.mk_obj(x.cls)
                o.d.update(x.d)
                return o
            if isinstance(x, PList):
                return E_.mk_list(list(x.items))
            if isinstance(x, PDict):
                d = E_.mk_dict(x.d)
                d.sym = [list(p_) for p_ in x.sym]
                return d
            if isinstance(x, Bytes):
                if x.kind == "bytearray":
                    return E_.mk_bytes(list(x.items), True, "bytearray")
                return x
            if x is None or isinstance(x, (int, str, bool, tuple, Str, SymInt, SymBool, EnumVal)):
                return x
            raise Unsupported(f"copy.copy of {type(x).__name__}")

        def deep(x, memo=None):
            if isinstance(x, Obj):
                f = x.cls.lookup("__deepcopy__")
                if isinstance(f, Func):
                    return E_.call(f, [x, E_.mk_dict()], {})
                o = E_.mk_obj(x.cls)
                for k, v in x.d.items():
                    o.d[k] = deep(v)
                return o
            if isinstance(x, PList):
                return E_.mk_list([deep(v) for v in x.items])
            if isinstance(x, tuple):
                return tuple(deep(v) for v in x)
            if isinstance(x, PDict):
                d = E_.mk_dict({k: deep(v) for k, v in x.d.items()})
                d.sym = [[k, deep(v)] for k, v in x.sym]
                return d
            return shallow(x)

        m.ns["copy"] = Native(shallow, "copy.copy")
        m.ns["deepcopy"] = Native(deep, "copy.deepcopy")
        return m

    S["copy"] = mk_copy

    def mk_itertools(E_):
        m = Module("itertools")
        m.ns["__name__"] = "itertools"

        def chain(*its):
            out = []
            for it in its:
                out.extend(E_.iterate(it))
            return E_.mk_list(out)

        def islice(it, *a):
            items = E_.iterate(it)
            vals = [None if x is None else E_.concretize(x) for x in a]
            return E_.mk_list(items[slice(*vals)])

        def repeat(x, n):
            return E_.mk_list([x] * E_.concretize(n))

        def zip_longest(*its, fillvalue=None):
            cols = [E_.iterate(it) for it in its]
            n = max([len(c) for c in cols] or [0])
            return E_.mk_list([tuple(c[i] if i < len(c) else fillvalue for c in cols) for i in range(n)])

        def product(*its, repeat=1):
            import itertools as _it
            cols = [E_.iterate(it) for it in its] * E_.concretize(repeat)
            return E_.mk_list([tuple(t) for t in _it.product(*cols)])

        def accumulate(it, func=None, initial=None):
            items = E_.iterate(it)
            out = []
            if initial is not None:
                acc = initial
                out.append(acc)
            elif items:
                acc = items.pop(0)
                out.append(acc)
            for v in items:
                acc = E_.call(func, [acc, v], {}) if func is not None else E_.binop(ast.Add(), acc, v)
                out.append(acc)
            return E_.mk_list(out)

        def starmap(f, it):
            return E_.mk_list([E_.call(f, list(E_.iterate(a)), {}) for a in E_.iterate(it)])

        def takewhile(pred, it):
            out = []
            for v in E_.iterate(it):
                if not E_.decide(E_.truth(E_.call(pred, [v], {}))):
                    break
                out.append(v)
            return E_.mk_list(out)

        def dropwhile(pred, it):
            items = E_.iterate(it)
            k = 0
            while k < len(items) and E_.decide(E_.truth(E_.call(pred, [items[k]], {}))):
                k += 1
            return E_.mk_list(items[k:])

        def pairwise(it):
            items = E_.iterate(it)
            return E_.mk_list([(items[i], items[i + 1]) for i in range(len(items) - 1)])

        def compress(data, selectors):
            return E_.mk_list([d for d, s_ in zip(E_.iterate(data), E_.iterate(selectors)) if E_.decide(E_.truth(s_))])

        def filterfalse(pred, it):
            return E_.mk_list([v for v in E_.iterate(it)
                               if not E_.decide(E_.truth(E_.call(pred, [v], {}) if pred is not None else v))])

        def combos(name):
            def f(it, r=None):
                import itertools as _it
                items = E_.iterate(it)
                idx = getattr(_it, name)(range(len(items)), *( [E_.concretize(r)] if r is not None else []))
                return E_.mk_list([tuple(items[i] for i in t) for t in idx])
            return f

        def batched(it, n):
            items = E_.iterate(it)
            n = E_.concretize(n)
            if n < 1:
                E_.throw("ValueError", "n must be at least one")
            return E_.mk_list([tuple(items[i:i + n]) for i in range(0, len(items), n)])

        for nm, fn_ in (("zip_longest", zip_longest), ("product", product), ("accumulate", accumulate), ("starmap", starmap),
                        ("takewhile", takewhile), ("dropwhile", dropwhile), ("pairwise", pairwise), ("compress", compress),
                        ("filterfalse", filterfalse), ("combinations", combos("combinations")), ("permutations", combos("permutations")),
                        ("batched", batched)):
            m.ns[nm] = Native(fn_, "itertools." + nm)
        m.ns["chain"] = Native(chain, "itertools.chain")
        m.ns["islice"] = Native(islice, "itertools.islice")
        m.ns["repeat"] = Native(repeat, "itertools.repeat")
        return m

    S["itertools"] = mk_itertools

    def mk_functools(E_):
        m = Module("functools")
        m.ns["__name__"] = "functools"

        def reduce(f, it, *init):
            items = E_.iterate(it)
            if init:
                acc = init[0]
            elif items:
                acc = items.pop(0)
            else:
                E_.throw("TypeError", "reduce() of empty iterable with no initial value")
            for v in items:
                acc = E_.call(f, [acc, v], {})
            return acc

        def memo(fn):
            """functools.cache / lru_cache: a faithful memo table for concrete hashable arguments"""
            table = {}

            def call(*a, **kw):
                if kw or not all(isinstance(x, (int, str, bool, tuple)) or x is None for x in a):
                    # symbolic arguments: the memo table cannot be keyed; memoised functions are taken to be pure,
                    # so calling through is equivalent (recorded as an assumption)
                    E_.assumptions_used.add("lru_cache-pure")
                    return E_.call(fn, list(a), dict(kw))
                E_.commit()
                if a not in table:
                    table[a] = E_.call(fn, list(a), {})
                return table[a]
            return Native(call, "memoised")

        def lru_cache(*a, **kw):
            if len(a) == 1 and not kw and isinstance(a[0], (Func, Native)):
                return memo(a[0])
            return Native(lambda fn: memo(fn), "lru_cache()")

        m.ns["reduce"] = Native(reduce, "functools.reduce")
        m.ns["lru_cache"] = Native(lru_cache, "functools.lru_cache")
        m.ns["cache"] = Native(lambda fn: memo(fn), "functools.cache")
        return m

    S["functools"] = mk_functools


# ====================================================================================== harness API
def install_harness_api(E):
    B = E.builtins
    import ast as _ast

    E.compare_ge = lambda a, b: E.compare(_ast.GtE(), a, b)
    E.int_sub1 = lambda b: E.binop(_ast.Sub(), b, 1)
    E.int_add1 = lambda b: E.binop(_ast.Add(), b, 1)

    def register(name, kind, val):
        if name in E.inputs:
            raise Unsupported(f"duplicate symbolic input name {name}")
        E.inputs[name] = (kind, val)
        E.input_order.append(name)

    def new_input_int(name, lo=None, hi=None, kind="int"):
        if E.concrete_inputs is not None:
            if name not in E.concrete_inputs:
                raise Unsupported(f"concrete run lacks input {name}")
            v = int(E.concrete_inputs[name])
            register(name, kind, v)
            if (lo is not None and not isinstance(lo, int)) or (hi is not None and not isinstance(hi, int)):
                raise Unsupported("symbolic bounds in concrete mode")
            if (lo is not None and v < lo) or (hi is not None and v > hi):
                raise PathAbort()
            return v
        x = z3.Int(name)
        if lo is not None:
            E.add(g_expr_if(E, zi(lo) <= x))
        if hi is not None:
            E.add(g_expr_if(E, x <= zi(hi)))
        v = SymInt(x)
        register(name, kind, v)
        return v

    def g_expr_if(E_, c):
        # inputs are created at harness top level; if ever created under a guard, bound them there only
        return c if E_.g is True else z3.Implies(g_expr(E_.g), c)

    E.new_input_int = new_input_int

    def sym_int(name, lo=None, hi=None):
        return new_input_int(name, lo, hi)

    def sym_bool(name):
        if E.concrete_inputs is not None:
            v = bool(E.concrete_inputs[name])
            register(name, "bool", v)
            return v
        v = SymBool(z3.Bool(name))
        register(name, "bool", v)
        return v

    def cells(name, n, lo, hi):
        n = E.concretize(n)
        if E.concrete_inputs is not None:
            vals = [int(x) for x in E.concrete_inputs[name]]
            if len(vals) != n:
                raise Unsupported(f"concrete input {name} has wrong length")
            if any(not lo <= v <= hi for v in vals):
                raise PathAbort()
            return vals
        xs = []
        w = hi.bit_length() if lo >= 0 else None
        for i in range(n):
            x = z3.Int(f"{name}_{i}")
            E.add(g_expr_if(E, z3.And(x >= lo, x <= hi)))
            xs.append(SymInt(x, w))
        return xs

    def sym_bytes(name, n):
        xs = cells(name, n, 0, 255)
        register(name, "bytes", xs)
        return E.mk_bytes(xs, False, "bytes")

    def sym_str(name, n, lo=0, hi=0x10FFFF):
        xs = cells(name, n, lo, hi)
        register(name, "str", xs)
        return Str(xs)

    def assume(c):
        c = E.truth(c)
        if E.g is False:
            return
        if isinstance(c, bool):
            if not c:
                E.commit()
                raise PathAbort()
            return
        if E.g is True:
            E.add(c.e)
        else:
            E.add(z3.Implies(E.g, c.e))
        if not E._check():
            raise PathAbort()

    def check(c, label="check"):
        E.do_check(c, label)

    def reach(label):
        if E.g is not False:
            E.reached[label] = E.reached.get(label, 0) + 1

    def observe(label, value):
        if E.g is False:
            return
        if E.concrete_inputs is not None:
            E.observations.append([label, plain(value)])
        elif E.g is True:
            # symbolic run: keep the (possibly symbolic) value; it is evaluated under the path's model later and compared
            # with what the real code produces natively - this validates the symbolic execution itself (ite merges etc.)
            E.observations.append([label, snapshot(value)])

    def snapshot(v):
        """freeze a value at observation time (containers may be mutated in place afterwards)"""
        if isinstance(v, Bytes):
            return Bytes(list(v.items), False)
        if isinstance(v, PList):
            return tuple(snapshot(x) for x in v.items)
        if isinstance(v, tuple):
            return tuple(snapshot(x) for x in v)
        return v

    def plain(v):
        if isinstance(v, (bool, int, str)) or v is None:
            return v
        if isinstance(v, Bytes):
            return ["bytes", [plain(x) for x in v.items]]
        if isinstance(v, Str):
            return "".join(chr(plain(c)) for c in v.cps)
        if isinstance(v, (PList, tuple)):
            return [plain(x) for x in (v.items if isinstance(v, PList) else v)]
        if isinstance(v, EnumVal):
            return plain(v.v)
        if isinstance(v, OpaqueStr):
            return "<opaque>"
        if isinstance(v, (SymInt, SymBool)):
            raise Unsupported("observe of symbolic value in concrete mode")
        return f"<{type(v).__name__}>"

    def fork(x):
        if isinstance(x, (SymBool, bool)):
            return E.decide(x)
        return E.concretize(x)

    def cp1252_enc(cp):
        E.assumptions_used.add("cp1252-table")
        if isinstance(cp, (Str, str)):
            return E.mk_bytes([cp1252.enc(c) for c in E.seq_of(cp)[1]], False, "bytes")
        return cp1252.enc(cp)

    def cp1252_dec(b):
        E.assumptions_used.add("cp1252-table")
        if isinstance(b, Bytes):
            return Str([cp1252.dec(x) for x in b.items])
        return cp1252.dec(b)

    def cp1252_ok(cp):
        r = cp1252.encodable(cp)
        return r if isinstance(r, bool) else mk_bool(r)

    def str_of(cps):
        return Str(E.iterate(cps))

    def cps_of(s):
        return E.mk_list(E.seq_of(s)[1])

    def tdiv(a, b):
        """C-style truncating division helper for oracles: only for b > 0 constants."""
        if isinstance(a, int) and isinstance(b, int):
            q = abs(a) // abs(b)
            return q if (a >= 0) == (b > 0) else -q
        x = zi(a)
        if not isinstance(b, int) or b <= 0:
            raise Unsupported("tdiv divisor")
        return mk_int(z3.If(x >= 0, x / b, -((-x) / b)))

    def exc_name(e):
        if isinstance(e, PyExc):
            e = e.obj
        return e.cls.name

    def is_vsx():
        return True

    def set_range_cap(k):
        E.range_cap = k

    def set_loop_bound(k):
        """declared termination bound of the harness: a `while` loop of the code under test that runs more than k
        iterations on this path counts as non-termination (raised as NonTermination, replayed natively under a timer)"""
        E.loop_bound = k

    def load_class(module, qualname):
        m = E.load(module)
        o = m
        for part in qualname.split("."):
            o = E.getattr(o, part)
        return o

    def forked(fn, *args, **kw):
        """Call fn with branch merging switched off (plain path forking) - an exploration-strategy
        choice of the harness for code whose predicated form is harder for the solver than its paths."""
        saved = E.merge_enabled
        E.merge_enabled = False
        try:
            return E.call(fn, list(args), kw)
        finally:
            E.merge_enabled = saved

    api = dict(sym_int=sym_int, sym_bool=sym_bool, sym_bytes=sym_bytes, sym_str=sym_str, assume=assume, check=check,
               reach=reach, observe=observe, fork=fork, cp1252_enc=cp1252_enc, cp1252_dec=cp1252_dec, cp1252_ok=cp1252_ok,
               str_of=str_of, cps_of=cps_of, tdiv=tdiv, exc_name=exc_name, is_vsx=is_vsx, forked=forked, load_class=load_class, set_range_cap=set_range_cap, set_loop_bound=set_loop_bound)
    for k, f in api.items():
        B[k] = Native(f, k)
    E.plain = plain
