"""Check runner: builds what a property needs from the repository's current tree, runs its jobs on all
cores, replays every solver model natively, and writes the evidence file.

exit 0  every obligation unsat on every feasible path within the declared bounds
exit 1  a counterexample was found and reproduced on the real code  (VIOLATION line)
exit 2  inconclusive / harness error (solver unknown, budget, unsupported construct, non-reproducing model)
"""
import hashlib
import importlib
import json
import multiprocessing as mp
import os
import subprocess
import sys
import tempfile
import time
import traceback

VERIF = os.path.dirname(os.path.dirname(os.path.abspath(__file__)))
REPO_PY = os.environ.get("VERIF_REPO_PYTHON", "/venv/bin/python")
LAZY = ["eolib", "eolib.protocol", "eolib.protocol.net", "eolib.protocol.net.client", "eolib.protocol.net.server",
        "eolib.protocol.map", "eolib.protocol.pub", "eolib.protocol.pub.server",
        "eolib.protocol._generated", "eolib.protocol._generated.net", "eolib.protocol._generated.net.client",
        "eolib.protocol._generated.net.server", "eolib.protocol._generated.map", "eolib.protocol._generated.pub",
        "eolib.protocol._generated.pub.server"]


def log(*a):
    print(*a, file=sys.stderr, flush=True)


# ------------------------------------------------------------------------------------ worker side
_ENGINES = {}


def _engine(root, opts):
    from .interp import Engine
    key = (root, opts.get("solver_timeout_ms", 120000), opts.get("value_cap", 600))
    E = _ENGINES.get(key)
    if E is None:
        E = Engine([root, os.path.join(VERIF, "harness")], solver_timeout_ms=key[1], value_cap=key[2])
        E.lazy_pkgs = set(LAZY)
        _ENGINES[key] = E
        E._harness = {}
    return E


def _harness(E, path):
    m = E._harness.get(path)
    if m is None:
        name = "__harness_" + hashlib.md5(path.encode()).hexdigest()[:8]
        m = E.load_source(name, open(path, encoding="utf-8").read(), path)
        E._harness[path] = m
    return m


def work(task):
    """Run one (shard of a) job in a worker process."""
    from .explore import explore, run_concrete
    from .values import Unsupported, Inconclusive
    t0 = time.time()
    out = {"job": task["name"], "shard": task.get("shard", 0)}
    try:
        E = _engine(task["root"], task)
        E.merge_enabled = task.get("merge", True)
        E.known = task.get("known", [])
        E.job_name = task["name"]
        E.second_solver = bool(task.get("second_solver"))
        E.second_budget = int(task.get("second_solver") or 0)
        if "fp_range" in task:
            E.fp_range = tuple(task["fp_range"])
        m = _harness(E, task["harness"])
        fn = m.ns.get(task["fn"])
        if fn is None:
            raise Unsupported(f"harness has no function {task['fn']}")
        E.funcs_used = {}
        E.assumptions_used = set()
        deadline = t0 + task["time_budget"] if task.get("time_budget") else None
        res = explore(E, fn, task.get("args", []), initial_work=task.get("initial_work"),
                      max_paths=task.get("max_paths"), deadline=deadline,
                      collect_models=task.get("collect_models", 2), max_violations=task.get("max_violations", 1),
                      split_at=task.get("split_at"), split_after_s=task.get("split_after_s", 12))
        out.update(res)
        out["funcs"] = sorted([m_, q, ln] for (m_, q), ln in E.funcs_used.items())
        out["sources"] = {k: v for k, v in E.sources.items()}
        # translator self-check, interpreter side: re-run each collected model all-concretely
        conc = []
        for k, inp in enumerate(res["models"]):
            try:
                c = run_concrete(E, fn, task.get("args", []), inp)
            except (Unsupported, Inconclusive) as e:
                c = {"status": "engine:unsupported", "note": str(e), "observations": []}
            so = res.get("sym_obs", [])
            c["sym_obs"] = so[k] if k < len(so) else None
            conc.append(c)
        out["concrete"] = conc
    except (Unsupported, Inconclusive) as e:
        out.update({"status": "unsupported", "note": f"{type(e).__name__}: {e}", "violations": [], "models": [],
                    "stats": {}, "reached": {}, "pending": [], "concrete": [], "funcs": [], "sources": {}})
    except Exception as e:     # noqa: BLE001 - an engine crash must surface as inconclusive, never as a pass
        out.update({"status": "crash", "note": f"{type(e).__name__}: {e}\n{traceback.format_exc()[-1500:]}",
                    "violations": [], "models": [], "stats": {}, "reached": {}, "pending": [], "concrete": [],
                    "funcs": [], "sources": {}})
    out["task_wall_s"] = round(time.time() - t0, 3)
    return out


# ------------------------------------------------------------------------------------ native side
def native_batch(root, harness, runs, timeout=900):
    """Run harness functions natively on the real code. -> (results list | None, info, err)"""
    if not runs:
        return [], {}, ""
    req = {"roots": [root, os.path.join(VERIF, "harness")], "lazy": LAZY, "harness": harness, "runs": runs}
    with tempfile.NamedTemporaryFile("w", suffix=".json", delete=False) as f:
        json.dump(req, f)
        path = f.name
    try:
        env = dict(os.environ)
        env["PYTHONDONTWRITEBYTECODE"] = "1"
        env.pop("PYTHONPATH", None)
        p = subprocess.run([REPO_PY, os.path.join(VERIF, "vsx", "native_rt.py"), path], capture_output=True,
                           text=True, timeout=timeout, env=env, cwd=root)
        if p.returncode != 0:
            return None, {}, (p.stderr or "")[-2000:]
        doc = json.loads(p.stdout)
        return doc["results"], doc.get("info", {}), ""
    except subprocess.TimeoutExpired:
        return None, {}, "native run timed out"
    except Exception as e:   # noqa: BLE001
        return None, {}, f"{type(e).__name__}: {e}"
    finally:
        os.unlink(path)


# ------------------------------------------------------------------------------------ fp lemma
def prove_fp_lemma(divisor, mode, lo, hi, timeout_ms=300000):
    """forall a in [lo,hi]: round_mode(float(a)/float(k)) (IEEE double, RNE division) == the integer quotient with
    the same rounding (trunc / floor / ceil).  Returns (ok, solver_name, seconds)."""
    t0 = time.time()
    width = 64
    try:
        import cvc5
        from cvc5 import Kind
        tm = cvc5.TermManager() if hasattr(cvc5, "TermManager") else None
        slv = cvc5.Solver(tm) if tm is not None else cvc5.Solver()
        mk = tm if tm is not None else slv
        slv.setLogic("QF_BVFP")
        slv.setOption("tlimit-per", str(timeout_ms))
        bv = mk.mkBitVectorSort(width)
        a = mk.mkConst(bv, "a")
        k = mk.mkBitVector(width, divisor)
        one = mk.mkBitVector(width, 1)
        zero = mk.mkBitVector(width, 0)
        rne = mk.mkRoundingMode(cvc5.RoundingMode.ROUND_NEAREST_TIES_TO_EVEN)
        rm = {"trunc": cvc5.RoundingMode.ROUND_TOWARD_ZERO, "floor": cvc5.RoundingMode.ROUND_TOWARD_NEGATIVE,
              "ceil": cvc5.RoundingMode.ROUND_TOWARD_POSITIVE}[mode]
        rmt = mk.mkRoundingMode(rm)
        to_fp = mk.mkOp(Kind.FLOATINGPOINT_TO_FP_FROM_SBV, 11, 53)
        fa = mk.mkTerm(to_fp, rne, a)
        fk = mk.mkTerm(to_fp, rne, k)
        q = mk.mkTerm(Kind.FLOATINGPOINT_DIV, rne, fa, fk)
        to_sbv = mk.mkOp(Kind.FLOATINGPOINT_TO_SBV, width)
        qi = mk.mkTerm(to_sbv, rmt, q)
        sdiv = mk.mkTerm(Kind.BITVECTOR_SDIV, a, k)
        srem = mk.mkTerm(Kind.BITVECTOR_SREM, a, k)
        inexact = mk.mkTerm(Kind.DISTINCT, srem, zero)
        if mode == "trunc":
            ref = sdiv
        elif mode == "floor":
            ref = mk.mkTerm(Kind.ITE, mk.mkTerm(Kind.AND, mk.mkTerm(Kind.BITVECTOR_SLT, a, zero), inexact),
                            mk.mkTerm(Kind.BITVECTOR_SUB, sdiv, one), sdiv)
        else:
            ref = mk.mkTerm(Kind.ITE, mk.mkTerm(Kind.AND, mk.mkTerm(Kind.BITVECTOR_SGT, a, zero), inexact),
                            mk.mkTerm(Kind.BITVECTOR_ADD, sdiv, one), sdiv)
        lo_t = mk.mkBitVector(width, lo % (1 << width))
        hi_t = mk.mkBitVector(width, hi % (1 << width))
        slv.assertFormula(mk.mkTerm(Kind.BITVECTOR_SLE, lo_t, a))
        slv.assertFormula(mk.mkTerm(Kind.BITVECTOR_SLE, a, hi_t))
        slv.assertFormula(mk.mkTerm(Kind.DISTINCT, qi, ref))
        r = slv.checkSat()
        if r.isUnsat():
            return True, "cvc5", round(time.time() - t0, 2)
        if r.isSat():
            return False, "cvc5", round(time.time() - t0, 2)
    except Exception as e:   # noqa: BLE001 - fall back to z3
        log("cvc5 fp lemma failed, falling back to z3:", e)
    import z3
    a = z3.BitVec("a", width)
    k = z3.BitVecVal(divisor, width)
    dbl = z3.Float64()
    fa = z3.fpSignedToFP(z3.RNE(), a, dbl)
    fk = z3.fpSignedToFP(z3.RNE(), k, dbl)
    q = z3.fpDiv(z3.RNE(), fa, fk)
    rm = {"trunc": z3.RTZ(), "floor": z3.RTN(), "ceil": z3.RTP()}[mode]
    qi = z3.fpToSBV(rm, q, z3.BitVecSort(width))
    sdiv = a / k
    inexact = z3.SRem(a, k) != 0
    ref = sdiv if mode == "trunc" else (z3.If(z3.And(a < 0, inexact), sdiv - 1, sdiv) if mode == "floor" else z3.If(z3.And(a > 0, inexact), sdiv + 1, sdiv))
    s = z3.Solver()
    s.set("timeout", timeout_ms)
    s.add(a >= z3.BitVecVal(lo, width), a <= z3.BitVecVal(hi, width), qi != ref)   # signed comparisons / bvsdiv
    r = s.check()
    return (r == z3.unsat), "z3", round(time.time() - t0, 2)


# ------------------------------------------------------------------------------------ main driver
class Run:
    def __init__(self, prop, tier, seed):
        self.prop = prop
        self.tier = tier
        self.seed = seed
        self.t0 = time.time()
        self.problems = []         # reasons for exit 2
        self.violations = []       # confirmed
        self.known_hits = []
        self.job_results = {}
        self.native_validated = 0
        self.native_runs = 0
        self.selfcheck_runs = 0
        self.samples = []
        self.fp = []
        self.crosshair = []

    def problem(self, msg):
        log("INCONCLUSIVE:", msg)
        self.problems.append(msg)


def load_known():
    p = os.path.join(VERIF, "known_findings.json")
    if not os.path.exists(p):
        return []
    return json.load(open(p)).get("findings", [])


def match_known(pid, job, v, known):
    for k in known:
        if k.get("status") != "known" or k.get("property") != pid:
            continue
        if k.get("label") and k["label"] != v["label"]:
            continue
        if k.get("job") and k["job"] != job:
            continue
        expr = k.get("match")
        if expr:
            try:
                if not eval(expr, {"__builtins__": {}}, dict(v["inputs"])):   # noqa: S307 - committed file
                    continue
            except Exception:   # noqa: BLE001
                continue
        return k
    return None


def execute(prop, tier, seed):
    from . import scratch
    scratch.sweep_stale()
    run = Run(prop, tier, seed)
    pid = prop.ID
    repo = scratch.repo_root()
    harness = os.path.join(VERIF, prop.HARNESS)
    jobs = prop.jobs(tier)
    from . import known as known_mod
    known_list = known_mod.load(VERIF, pid)
    # ---- roots
    roots = {}
    if getattr(prop, "MODE", "src") == "src":
        roots["src"] = os.path.join(repo, "src")
        for j in jobs:
            j["tree"] = "src"
    else:
        rejected = {}
        for name, xml_dir in prop.trees(tier):
            if name.startswith("pairs"):
                root, ok, msg, dropped = scratch.build_tree_tolerant(xml_dir, repo)
                for dn, why in dropped:
                    # the unchanged generator accepts every spec of the generated corpus: a rejection is reported
                    # (exit 2 unless a violation is found as well) and the rest of the tree is still checked
                    run.problem(f"generator rejects the grammatical spec {dn} of corpus tree {name}: {why}")
                    rejected.setdefault(name, set()).add(dn)
            else:
                root, ok, msg = scratch.build_tree(xml_dir, repo)
            if not ok:
                handled = False
                if hasattr(prop, "on_generator_failure"):
                    handled = prop.on_generator_failure(run, name, xml_dir, msg)
                if not handled:
                    run.problem(f"code generation failed for corpus tree {name}: {msg.strip()[-300:]}")
                continue
            roots[name] = root
        jobs = [j for j in jobs if j.get("tree", "core") in roots]
        if rejected:
            def _gone(j):
                names = rejected.get(j.get("tree", "core"))
                if not names:
                    return False
                for a_ in j.get("args", []):
                    if isinstance(a_, dict) and "name" in a_ and "module" in a_:
                        if a_["name"].split(".")[0] in names:
                            return True
                return False
            jobs = [j for j in jobs if not _gone(j)]
    log(f"[t+{time.time()-run.t0:.1f}s] roots ready")
    tasks = []
    for j in jobs:
        t = dict(j)
        t["root"] = roots[j.get("tree", "src")]
        t["harness"] = harness
        t["known"] = known_list
        tasks.append(t)
    # ---- run jobs (dynamic queue: shards of split jobs are re-submitted)
    nproc = int(os.environ.get("VERIF_JOBS", "0")) or min(16, os.cpu_count() or 4)
    results = []
    abandoned = False
    if tasks:
        ctx = mp.get_context("fork")
        with ctx.Pool(processes=nproc, maxtasksperchild=int(os.environ.get("VERIF_MAXTASKS", "40"))) as pool:
            pending = [pool.apply_async(work, (t,)) for t in tasks]
            by_name = {t["name"]: t for t in tasks}
            shard_no = {}
            first_violation_at = None
            while pending:
                if first_violation_at is not None and time.time() - first_violation_at > float(os.environ.get("VERIF_FAILFAST_GRACE", "20")):
                    # a counterexample is in hand: do not wait for the long tail (abandoned jobs are not counted as explored)
                    log(f"fail-fast: abandoning {len(pending)} unfinished job(s) after a violation was found")
                    abandoned = True
                    break
                nxt = []
                for ar in pending:
                    if not ar.ready():
                        nxt.append(ar)
                        continue
                    r = ar.get()
                    results.append(r)
                    if os.environ.get("VERIF_PROGRESS") and (r.get("wall_s") or 0) >= float(os.environ["VERIF_PROGRESS"]):
                        log(f"[t+{time.time()-run.t0:.1f}s] job {r.get('job')} shard={r.get('shard')} {r.get('status')} wall={r.get('wall_s')}s paths={(r.get('stats') or {}).get('paths')}")
                    if r.get("violations") and first_violation_at is None:
                        first_violation_at = time.time()
                    if r.get("status") == "split":
                        base = by_name[r["job"]]
                        traces = r["pending"]
                        # DFS leftovers: the shallowest pending traces head the biggest subtrees -> one task each
                        for tr in traces:
                            shard_no[r["job"]] = shard_no.get(r["job"], 0) + 1
                            t2 = dict(base)
                            t2["initial_work"] = [tr]
                            t2["shard"] = shard_no[r["job"]]
                            t2["collect_models"] = 1
                            nxt.append(pool.apply_async(work, (t2,)))
                pending = nxt
                if pending:
                    time.sleep(0.02)
    log(f"[t+{time.time()-run.t0:.1f}s] {len(results)} job results")
    # ---- aggregate per job
    agg = {}
    for r in results:
        a = agg.setdefault(r["job"], {"status": "done", "notes": [], "stats": {}, "violations": [], "reached": {},
                                      "models": [], "concrete": [], "funcs": set(), "sources": {}, "shards": 0,
                                      "wall_s": 0.0, "fp_uses": set(), "assumptions": set(), "completed": 0})
        a["shards"] += 1
        st = r.get("status")
        if st in ("inconclusive", "unsupported", "crash") and a["status"] == "done":
            a["status"] = st
            a["notes"].append(r.get("note", ""))
        for k, v in (r.get("stats") or {}).items():
            a["stats"][k] = a["stats"].get(k, 0) + v
        a["violations"].extend(r.get("violations", []))
        a.setdefault("known_hits", []).extend(r.get("known_hits", []))
        for k, v in (r.get("reached") or {}).items():
            a["reached"][k] = a["reached"].get(k, 0) + v
        for mdl, c in zip(r.get("models", []), r.get("concrete", [])):
            a["models"].append(mdl)
            a["concrete"].append(c)
        a["funcs"].update(tuple(f) for f in r.get("funcs", []))
        a["sources"].update(r.get("sources", {}))
        a["wall_s"] += r.get("task_wall_s", 0)
        a["fp_uses"].update(tuple(x) for x in r.get("fp_uses", []))
        a["assumptions"].update(r.get("assumptions", []))
        for k, v in (r.get("second") or {}).items():
            a.setdefault("second", {})
            a["second"][k] = a["second"].get(k, 0) + v
        a["completed"] += r.get("completed", 0)
    run.job_results = agg
    by_name = {t["name"]: t for t in tasks}
    known = load_known()
    # ---- inconclusive jobs
    for name, a in agg.items():
        if a["status"] != "done":
            run.problem(f"job {name}: {a['status']}: {'; '.join(n for n in a['notes'] if n)[:400]}")
    for t in tasks:
        if t["name"] not in agg and not abandoned:
            run.problem(f"job {t['name']} produced no result")
    # ---- native replays: (1) violations, (2) per-path models (translator self-check + reachability witness)
    per_root = {}
    for name, a in agg.items():
        t = by_name[name]
        for v in a["violations"]:
            per_root.setdefault(t["root"], []).append(("violation", name, v, {"fn": t["fn"], "args": t.get("args", []), "inputs": v["inputs"], "tree": t.get("tree")}))
        for mdl, c in zip(a["models"], a["concrete"]):
            per_root.setdefault(t["root"], []).append(("model", name, (mdl, c), {"fn": t["fn"], "args": t.get("args", []), "inputs": mdl, "tree": t.get("tree")}))
    witnesses = {}
    for root, items in per_root.items():
        res, info, err = native_batch(root, harness, [it[3] for it in items])
        if res is None:
            run.problem(f"native replay failed: {err[-400:]}")
            continue
        if info.get("cp1252"):
            from . import cp1252
            if info["cp1252"]["dec"] != cp1252.DEC:
                run.problem("cp1252 decode table differs between the engine host and the repository interpreter")
        for pos, ((kind, name, payload, req), nat) in enumerate(zip(items, res)):
            run.native_runs += 1
            if kind == "violation":
                v = payload
                same = nat.get("status") == v["kind"] and nat.get("label") == v["label"]
                if nat.get("random_contract_broken"):
                    same = False
                if same:
                    k = match_known(pid, name, v, known)
                    if k is not None:
                        run.known_hits.append((k, name, v))
                    else:
                        run.violations.append((name, v, req, nat))
                else:
                    run.problem(f"ENGINE-MISMATCH job {name}: solver model for '{v['label']}' does not reproduce natively "
                                f"(native: {nat.get('status')} {nat.get('label', '')} {nat.get('message', '')}) inputs={json.dumps(v['inputs'])[:300]}")
            else:
                mdl, conc = payload
                run.selfcheck_runs += 1
                ok = nat.get("status") == "ok" and conc.get("status") == "ok" and nat.get("observations") == conc.get("observations")
                if ok and conc.get("sym_obs") is not None and conc["sym_obs"] != nat.get("observations"):
                    # the symbolic run's own values, evaluated under the path model, must equal what the real code produced
                    ok = False
                    conc = dict(conc, status="symbolic-observation-differs", observations=conc["sym_obs"])
                if ok:
                    run.native_validated += 1
                    witnesses[name] = witnesses.get(name, 0) + 1
                    if len(run.samples) < 12:
                        run.samples.append({"job": name, "fn": req["fn"], "args": req["args"], "path_model_inputs": mdl,
                                            "native": "ok", "observations": nat.get("observations", [])[:6]})
                elif nat.get("status") in ("check", "uncaught") and conc.get("status") == "ok" and not nat.get("random_contract_broken"):
                    # the REAL code fails a harness obligation on an input the solver produced, while the interpreter's
                    # model of the environment (enum machinery, codecs, ...) satisfies it: a genuine, natively
                    # reproduced counterexample that lives in a part of the environment the encoding abstracts
                    v = {"kind": nat["status"], "label": nat.get("label", ""), "inputs": mdl,
                         "found_by": "native replay of a solver path model (the interpreter's environment model satisfied the obligation)"}
                    k = match_known(pid, name, v, known)
                    if k is not None:
                        run.known_hits.append((k, name, v))
                    else:
                        # such a failure may depend on what the same process executed before (module-level state):
                        # the replay file carries the preceding runs of the batch
                        req = dict(req, history=[it[3] for it in items[max(0, pos - 400):pos]])
                        run.violations.append((name, v, req, nat))
                else:
                    run.problem(f"SELF-CHECK-MISMATCH job {name}: inputs={json.dumps(mdl)[:300]} native={nat.get('status')} "
                                f"{nat.get('label', '')} {nat.get('message', '')} interp-concrete={conc.get('status')} {conc.get('label', '')} {conc.get('note', '')}"
                                + ("" if nat.get("observations") == conc.get("observations") else
                                   f" obs-native={json.dumps(nat.get('observations'))[:300]} obs-interp={json.dumps(conc.get('observations'))[:300]}"))
    log(f"[t+{time.time()-run.t0:.1f}s] native replays done ({run.native_runs})")
    for name, a in agg.items():
        for h in a.get("known_hits", []):
            for k in known_list:
                if known_mod.applies(k, name, h["label"]) and known_mod.matches(k, h["inputs"]):
                    run.known_hits.append((k, name, h))
                    break
    # ---- vacuity: every job must reach its end on at least one feasible path, and every expected label
    for name, a in agg.items():
        t = by_name[name]
        if a["status"] != "done" or a["violations"]:
            continue
        if not t.get("may_be_empty") and a["reached"].get("<end>", 0) == 0:
            run.problem(f"VACUOUS job {name}: no feasible path reaches the end of the harness")
        for lab in t.get("expect", []):
            if a["reached"].get(lab, 0) == 0:
                run.problem(f"VACUOUS job {name}: obligation '{lab}' never reached")
        if not t.get("may_be_empty") and t.get("collect_models", 2) > 0 and witnesses.get(name, 0) == 0 and a["reached"].get("<end>", 0) > 0:
            run.problem(f"job {name}: no natively validated reachability witness")
    # ---- float lemma
    divisors = set()
    for a in agg.values():
        divisors.update(a["fp_uses"])
    fp_range = None
    for t in tasks:
        fp_range = tuple(t.get("fp_range", (-4096, 4096)))
    if divisors:
        ctx = mp.get_context("fork")
        with ctx.Pool(processes=min(len(divisors), 16)) as pool:
            outs = pool.starmap(prove_fp_lemma, [(d, m, fp_range[0], fp_range[1]) for (d, m) in sorted(divisors)])
        for (d, m), (ok, who, secs) in zip(sorted(divisors), outs):
            run.fp.append({"divisor": d, "rounding": m, "range": list(fp_range), "proved": ok, "solver": who, "seconds": secs})
            if not ok:
                run.problem(f"float-division lemma for divisor {d} ({m}) over {fp_range} not proved")
    # ---- second engine (CrossHair) where a property registers contracts for it
    files = getattr(prop, "CROSSHAIR", []) if tier == "thorough" else []
    for f in files:
        t1 = time.time()
        env = dict(os.environ, VERIF_REPO=repo)
        try:
            p = subprocess.run([sys.executable, "-m", "crosshair", "check", "--report_all", "--per_condition_timeout", "60",
                                os.path.join(VERIF, f)], capture_output=True, text=True, timeout=900, env=env, cwd=VERIF)
            out = (p.stdout or "") + (p.stderr or "")
        except Exception as e:   # noqa: BLE001
            out = f"crosshair failed to run: {e}"
        confirmed = out.count("Confirmed over all paths")
        counter = [l for l in out.splitlines() if " error: " in l]
        other = [l for l in out.splitlines() if "Not confirmed" in l or "Unable to meet precondition" in l]
        run.crosshair.append({"file": f, "confirmed_over_all_paths": confirmed, "counterexamples": counter[:5], "inconclusive": other[:5],
                              "seconds": round(time.time() - t1, 1)})
        if counter and not run.violations:
            run.problem(f"engine disagreement: CrossHair reports a counterexample in {f} that vsx did not find: {counter[0][:300]}")
    # ---- cleanup scratch roots
    for name, root in roots.items():
        if name != "src":
            scratch.remove(root)
    return run


def write_evidence(prop, run, tier, seed):
    agg = run.job_results
    tot = {}
    for a in agg.values():
        for k, v in a["stats"].items():
            tot[k] = tot.get(k, 0) + v
    funcs = set()
    sources = {}
    for a in agg.values():
        funcs.update(a["funcs"])
        sources.update(a["sources"])
    repo_funcs = sorted(f"{m}.{q}" for (m, q, ln) in funcs if m and not m.startswith("__harness"))
    labels = {}
    for name, a in agg.items():
        for lab, n in a["reached"].items():
            if lab != "<end>":
                labels[(name, lab)] = n
    assumptions = list(getattr(prop, "ASSUMPTIONS", []))
    used = set()
    for a in agg.values():
        used.update(a["assumptions"])
    for u in list(used):
        if u.startswith("range-cap:"):
            used.discard(u)
            assumptions.append("loop counts decoded from symbolic input are explored up to %s; larger decoded counts are outside the claim" % u.split(":")[1])
    stubs = {"cp1252-table": "windows-1252 'replace' codec modelled as a z3 table function regenerated from the host codec and compared with the repository interpreter's",
             "enum-model": "IntEnum under ProtocolEnumMeta modelled as an integer tagged with its class (C14 is outside this technique)",
             "memoryview-as-copy": "memoryview modelled as an immutable copy of the bytes",
             "randrange-contract": "random.randrange(a,b) returns an arbitrary integer in [a,b) and raises ValueError on an empty range",
             "lru_cache-pure": "functions under functools.lru_cache/cache are taken to be pure when called with symbolic arguments (called through, no memo)",
             "float-division-lemma": "int(a/k) encoded as truncating division; side lemma proved in QF_BVFP for the stated operand range"}
    for u in sorted(used):
        assumptions.append(stubs.get(u, u))
    samples = list(run.samples)
    for (name, lab), n in list(labels.items())[:6]:
        samples.append({"obligation": lab, "job": name, "times_discharged_or_reached": n})
    nontrivial = tot.get("discharged", 0) - tot.get("trivial", 0)
    cov = {
        "evaluations": int(tot.get("paths", 0)),
        "distinct_nontrivial": int(len(labels)),
        "rule": "one evaluation = one symbolically executed path of the real code (each covers every input satisfying its path condition); "
                "distinct_nontrivial = number of distinct (job, obligation label) pairs whose negation was sent to z3 on at least one path",
        "samples": samples or [{"note": "no path completed"}],
        "states": max(1, int(tot.get("paths", 0))),
        "transitions": max(1, int(tot.get("queries", 0))),
        "traces_validated_against_impl": int(run.native_validated),
        "obligations": int(tot.get("obligations", 0)),
        "discharged": int(tot.get("discharged", 0)),
        "discharged_by_solver": int(nontrivial),
        "checker_cmd": f"./check {prop.ID} --tier {tier}",
        "trusted_base": ["z3 %s" % _z3_version(), "vsx interpreter (/verif/vsx)", "CPython %s for native replays" % REPO_PY],
        "programs": int(getattr(prop, "programs", lambda tier: 0)(tier)) if hasattr(prop, "programs") else 0,
        "disagreements_checked": int(tot.get("discharged", 0)),
        "exhaustive": bool(getattr(prop, "EXHAUSTIVE", False)),
        "explanation": getattr(prop, "EXPLANATION", ""),
        "bounds": prop.BOUNDS.get(tier, ""),
        "outside_bounds": getattr(prop, "OUTSIDE", ""),
        "jobs": len(agg),
        "solver_queries": int(tot.get("queries", 0)),
        "solver_seconds": round(tot.get("solver_s", 0.0), 2),
        "path_forks": int(tot.get("forks", 0)),
        "value_forks": int(tot.get("value_forks", 0)),
        "merged_writes": int(tot.get("merges", 0)),
        "functions_encoded": repo_funcs,
        "source_hashes": {k: v[1][:16] for k, v in sorted(sources.items()) if not k.startswith("__harness")},
        "harness": prop.HARNESS,
        "native_replays": int(run.native_runs),
        "selfcheck_vectors": int(run.selfcheck_runs),
        "float_lemmas": run.fp,
        "second_solver_cvc5": _second_total(agg),
        "second_engine_crosshair": run.crosshair,
        "inconclusive_reasons": run.problems[:20],
        "known_findings_hit": [k.get("id", "") for k, _, _ in run.known_hits],
        "per_job": {name: {"status": a["status"], "paths": a["stats"].get("paths", 0), "queries": a["stats"].get("queries", 0),
                           "discharged": a["stats"].get("discharged", 0), "cpu_s": round(a["wall_s"], 2)}
                    for name, a in sorted(agg.items())},
    }
    if not cov["programs"]:
        cov.pop("programs")
    ev = {
        "property_id": prop.ID, "tier": tier, "seed": int(seed), "level": prop.LEVEL, "coverage": cov,
        "assumptions": assumptions, "wall_s": round(time.time() - run.t0, 2), "violations": len(run.violations),
    }
    os.makedirs(os.path.join(VERIF, "evidence"), exist_ok=True)
    with open(os.path.join(VERIF, "evidence", f"{prop.ID}.json"), "w") as f:
        json.dump(ev, f, indent=1, sort_keys=False)
    return ev


def _second_total(agg):
    tot = {}
    for a in agg.values():
        for k, v in (a.get("second") or {}).items():
            tot[k] = tot.get(k, 0) + v
    return tot


def _z3_version():
    try:
        import z3
        return z3.get_version_string()
    except Exception:   # noqa: BLE001
        return "?"


def write_replay(prop, name, v, req, tier):
    os.makedirs(os.path.join(VERIF, "replays"), exist_ok=True)
    doc = {"property": prop.ID, "harness": prop.HARNESS, "mode": getattr(prop, "MODE", "src"), "job": name, "fn": req["fn"],
           "args": req["args"], "inputs": v["inputs"], "expected": {"status": v["kind"], "label": v["label"]}, "tier": tier,
           "tree": req.get("tree"), "history": req.get("history", []), "found_by": v.get("found_by", "solver model")}
    h = hashlib.sha256(json.dumps(doc, sort_keys=True).encode()).hexdigest()[:12]
    path = os.path.join(VERIF, "replays", f"{prop.ID}-{h}.json")
    with open(path, "w") as f:
        json.dump(doc, f, indent=1)
    return path


def replay(prop, path):
    """Re-run a stored counterexample natively against the current tree."""
    from . import scratch
    doc = json.load(open(path))
    repo = scratch.repo_root()
    if doc.get("fn") == "<generator>":
        xml = dict(prop.trees(doc.get("tier", "quick"))).get(doc["args"][0])
        root, ok, msg = scratch.build_tree(xml, repo)
        print(json.dumps({"expected": doc["expected"], "generator_ok": ok, "message": msg.strip()[-300:]}))
        print("NOT-REPRODUCED" if ok else "REPRODUCED")
        return 0 if ok else 1
    if doc.get("mode", "src") == "src":
        root = os.path.join(repo, "src")
    else:
        tree = doc.get("tree") or "core"
        xml = dict(prop.trees(doc.get("tier", "quick"))).get(tree)
        root, ok, msg = scratch.build_tree(xml, repo)
        if not ok:
            print(f"generator failed: {msg}")
            return 2
    runs = [{"fn": h["fn"], "args": h["args"], "inputs": h["inputs"]} for h in doc.get("history", [])]
    runs.append({"fn": doc["fn"], "args": doc["args"], "inputs": doc["inputs"]})
    res, info, err = native_batch(root, os.path.join(VERIF, doc["harness"]), runs)
    if res is None:
        print("replay failed:", err)
        return 2
    nat = res[-1]
    print(json.dumps({"expected": doc["expected"], "native": {k: v for k, v in nat.items() if k != "observations"}}))
    same = nat.get("status") == doc["expected"]["status"] and nat.get("label") == doc["expected"]["label"]
    print("REPRODUCED" if same else "NOT-REPRODUCED")
    return 1 if same else 0


def main(argv=None):
    import argparse
    ap = argparse.ArgumentParser()
    ap.add_argument("property")
    ap.add_argument("--tier", default=os.environ.get("VERIF_TIER", "quick"), choices=["quick", "thorough"])
    ap.add_argument("--replay")
    ap.add_argument("--jobs-filter", default=None, help="regex filter on job names (development)")
    a = ap.parse_args(argv)
    sys.path.insert(0, VERIF)
    prop = importlib.import_module("props." + a.property.lower())
    seed = int(os.environ.get("VERIF_SEED", "0") or 0)
    if a.replay:
        return replay(prop, a.replay)
    if a.jobs_filter:
        orig = prop.jobs
        import re as _re
        _pat = _re.compile(a.jobs_filter)
        prop.jobs = lambda tier: [j for j in orig(tier) if _pat.search(j["name"])]
    run = execute(prop, a.tier, seed)
    ev = write_evidence(prop, run, a.tier, seed)
    cov = ev["coverage"]
    print(f"{prop.ID} [{a.tier}] jobs={cov['jobs']} paths={cov['evaluations']} queries={cov['solver_queries']} "
          f"obligations={cov['obligations']} discharged={cov['discharged']} native_validated={cov['traces_validated_against_impl']} "
          f"solver_s={cov['solver_seconds']} wall_s={ev['wall_s']}")
    for k, name, v in run.known_hits:
        print(f"KNOWN-FINDING: property={prop.ID} {k.get('what', k.get('id', ''))} (job {name}, inputs {json.dumps(v['inputs'])[:200]})")
    if run.violations:
        for name, v, req, nat in run.violations:
            path = write_replay(prop, name, v, req, a.tier)
            print(f"VIOLATION property={prop.ID} replay={path}")
            print(f"  job={name} obligation={v['label']} inputs={json.dumps(v['inputs'])[:400]} native={nat.get('status')} {nat.get('message', '')}")
        return 1
    if run.problems:
        for p in run.problems[:30]:
            print("INCONCLUSIVE:", p[:1500])
        return 2
    print(f"OK property={prop.ID}: all obligations discharged (unsat) within the declared bounds")
    return 0


if __name__ == "__main__":
    sys.exit(main())
