"""Engine smoke test run by setup.sh: a tiny harness must pass, and a seeded bug must be found and replayed."""
import os, sys, tempfile, json
from .interp import Engine
from .explore import explore
from . import cp1252

H = '''
def ok_abs():
    x = sym_int("x", -10, 10)
    y = x if x >= 0 else -x
    check(y >= 0, "abs")

def bad_abs():
    x = sym_int("x", -10, 10)
    y = x if x > 3 else -x
    check(y >= 0, "abs")

def bytes_loop(n):
    b = sym_bytes("b", n)
    t = 0
    for i in range(n):
        if b[i] == 0xFF:
            break
        t += 1
    check(0 <= t <= n, "count")
'''


def main():
    bad = cp1252.full_check()
    if bad:
        print("cp1252 table differs from the host codec at", bad, "points")
        return 2
    E = Engine([])
    m = E.load_source("__selftest__", H)
    r = explore(E, m.ns["ok_abs"], [])
    assert r["status"] == "done" and not r["violations"], r
    r = explore(E, m.ns["bad_abs"], [])
    assert r["violations"] and 0 < r["violations"][0]["inputs"]["x"] <= 3, r
    r = explore(E, m.ns["bytes_loop"], [6])
    assert r["status"] == "done" and not r["violations"] and r["stats"]["paths"] == 1, r
    print("vsx selftest ok")
    return 0


if __name__ == "__main__":
    sys.exit(main())
