"""Path exploration of one job (= one harness function call with concrete arguments)."""
import time

import z3

from .values import *   # noqa: F401,F403
from .interp import Engine, Stats
from . import cp1252
from . import known as known_mod


def to_value(E, x):
    """Concrete job argument (JSON-like) -> interpreter value.  Lists become tuples (immutable specs)."""
    if isinstance(x, (list, tuple)):
        return tuple(to_value(E, v) for v in x)
    if isinstance(x, dict):
        return E.mk_dict({k: to_value(E, v) for k, v in x.items()})
    return x


def model_inputs(E, model):
    out = {}
    rnd = []
    for name in E.input_order:
        kind, v = E.inputs[name]

        def val(t):
            if isinstance(t, bool):
                return t
            if isinstance(t, int):
                return t
            if isinstance(t, SymBool):
                return bool(z3.is_true(model.eval(t.e, model_completion=True)))
            return model.eval(t.e, model_completion=True).as_long()
        if kind in ("bytes", "str"):
            out[name] = [val(c) for c in v]
        elif kind == "random":
            r = val(v)
            out[name] = r
            rnd.append(r)
        else:
            out[name] = val(v)
    if rnd:
        out["__random__"] = rnd
    return out


def eval_value(model, v):
    """a recorded observation (symbolic value) under a model -> the plain form native_rt.plain() produces"""
    if isinstance(v, bool) or v is None or isinstance(v, (int, str)):
        return v
    if isinstance(v, SymBool):
        return bool(z3.is_true(model.eval(v.e, model_completion=True)))
    if isinstance(v, SymInt):
        return model.eval(v.e, model_completion=True).as_long()
    if isinstance(v, EnumVal):
        return eval_value(model, v.v)
    if isinstance(v, Bytes):
        return ["bytes", [eval_value(model, x) for x in v.items]]
    if isinstance(v, Str):
        return "".join(chr(eval_value(model, c)) for c in v.cps)
    if isinstance(v, (PList, tuple)):
        return [eval_value(model, x) for x in (v.items if isinstance(v, PList) else v)]
    if isinstance(v, OpaqueStr):
        return "<opaque>"
    return f"<{type(v).__name__}>"


def install_check(E, max_violations):
    def do_check(c, label):
        E.stats.obligations += 1
        g = E.g
        if g is False:
            return
        E.reached[label] = E.reached.get(label, 0) + 1
        c = E.truth(c)
        if not isinstance(c, bool):
            c = simp_bool(c.e)
        if c is True:
            E.stats.trivial += 1
            E.stats.discharged += 1
            return
        neg = True if c is False else g_not(c.e)
        q = g_and(g, neg)
        if E.concrete_inputs is not None:
            if q is True:
                E.violations.append({"kind": "check", "label": label, "inputs": dict(E.concrete_inputs)})
                raise PathAbort()
            if q is False:
                E.stats.discharged += 1
                return
            raise Unsupported("symbolic check in concrete mode")
        # a conjunction is discharged conjunct by conjunct: each negated conjunct is a far easier query
        # than the disjunction of all of them (sound: every conjunct valid <=> the conjunction valid)
        parts = []
        if c is not False and z3.is_and(c.e) and c.e.num_args() > 1:
            stack = [c.e]
            while stack:
                t = stack.pop()
                if z3.is_and(t):
                    stack.extend(reversed(t.children()))
                else:
                    parts.append(g_and(g, z3.Not(t)))
        else:
            parts = [q]
        known = [k for k in E.known if known_mod.applies(k, E.job_name, label)]
        for p in parts:
            sat = E._check() if p is True else E._check(p)
            if sat and known:
                # ask for a violation that is none of the listed known findings
                env = {n: v[1].e for n, v in E.inputs.items() if v[0] in ("int", "random") and isinstance(v[1], SymInt)}
                excl = [known_mod.to_z3(k["match"], env) if k.get("match") else z3.BoolVal(True) for k in known]
                if all(x is not None for x in excl):
                    fresh = g_and(p, z3.Not(z3.Or(*excl)) if len(excl) > 1 else z3.Not(excl[0]))
                    if not (E._check() if fresh is True else E._check(fresh)):
                        # every violation here is a listed known finding: record one witness and carry on
                        if E._check(need_model=True) if p is True else E._check(p, need_model=True):
                            inputs = model_inputs(E, E.solver.model())
                            E.known_hits.append({"kind": "check", "label": label, "inputs": inputs})
                        continue
                    p = fresh
            if sat:
                sat = E._check(need_model=True) if p is True else E._check(p, need_model=True)
            if sat:
                inputs = model_inputs(E, E.solver.model())
                E.violations.append({"kind": "check", "label": label, "inputs": inputs})
                raise PathAbort()
            if E.second_solver and E.second_budget > 0:
                # second opinion on the discharged obligation (cvc5); only a definite 'sat' is a disagreement
                from .second import recheck
                E.second_budget -= 1
                verdict, secs = recheck(E.solver.assertions(), [] if p is True else [p])
                E.second[verdict] = E.second.get(verdict, 0) + 1
                if verdict == "sat":
                    raise Inconclusive("solver disagreement: z3 unsat, cvc5 sat on obligation '%s'" % label)
        E.stats.discharged += 1
    E.do_check = do_check


def reset_path(E, trace):
    E.rollback_module_state()
    E.trace = list(trace)
    E.tpos = 0
    E.g = True
    E.frame = None
    E.depth = 0
    E.region_serial = 0
    E.inputs = {}
    E.input_order = []
    E.randcalls = 0
    E.observations = []
    E.range_cap = None
    E.loop_bound = None
    E.pc_hash = 0


def exc_message(e):
    """first argument of an interpreted exception when it is a plain string (diagnostics only)"""
    try:
        a = e.obj.d.get("args")
        if isinstance(a, tuple) and a and isinstance(a[0], str):
            return a[0][:200]
    except Exception:      # noqa: BLE001
        pass
    return ""


def explore(E, fn, args, *, initial_work=None, max_paths=None, deadline=None, collect_models=0,
            max_violations=1, split_at=None, split_after_s=None):
    """Explore all paths of fn(*args).  Returns a result dict.  `split_at`: stop once the work list
    holds that many pending traces (used for sharding) and return them under 'pending'."""
    install_check(E, max_violations)
    E.solver = z3.Solver()          # fresh solver per job: no learned state leaks between jobs
    E.qcache = {}
    E.pc_refs = []          # keeps every asserted term alive for the whole job so that z3 ids stay unique
    E.solver.set("timeout", E.solver_timeout_ms)
    E.work = [list(t) for t in (initial_work if initial_work is not None else [[]])]
    E.violations = []
    E.known_hits = []
    E.reached = {}
    E.fp_uses = []
    E.second = {}
    stats0 = E.stats
    E.stats = Stats()
    models = []
    sym_obs = []
    completed = 0
    status = "done"
    note = ""
    t0 = time.time()
    vargs = [to_value(E, a) for a in args]
    try:
        while E.work:
            if split_at is not None and len(E.work) >= split_at:
                status = "split"
                break
            if split_after_s is not None and time.time() - t0 > split_after_s and len(E.work) >= 2:
                status = "split"
                break
            if max_paths is not None and E.stats.paths >= max_paths:
                status = "inconclusive"
                note = f"path budget {max_paths} exhausted"
                break
            if deadline is not None and time.time() > deadline:
                status = "inconclusive"
                note = "time budget exhausted"
                break
            trace = E.work.pop()
            reset_path(E, trace)
            E.solver.push()
            E.stats.paths += 1
            try:
                E.call(fn, list(vargs), {})
                completed += 1
                E.reached["<end>"] = E.reached.get("<end>", 0) + 1
                if len(models) < collect_models and E.concrete_inputs is None:
                    extra = []
                    if E.known:
                        # the reachability witness / self-check vector must not be one of the listed known findings
                        env = {n: v[1].e for n, v in E.inputs.items() if v[0] in ("int", "random") and isinstance(v[1], SymInt)}
                        for k in E.known:
                            if k.get("match"):
                                t = known_mod.to_z3(k["match"], env)
                                if t is not None:
                                    extra.append(z3.Not(t))
                    if E._check(*extra, need_model=True):
                        mdl = E.solver.model()
                        models.append(model_inputs(E, mdl))
                        try:
                            sym_obs.append([[lab, eval_value(mdl, val)] for lab, val in E.observations])
                        except Exception:      # noqa: BLE001 - an observation we cannot evaluate is simply not compared
                            sym_obs.append(None)
            except PathAbort:
                E.stats.aborted += 1
            except DeadBranch:
                E.stats.aborted += 1
            except PyExc as e:
                if E.concrete_inputs is not None:
                    E.violations.append({"kind": "uncaught", "label": "uncaught:" + e.cls.name, "exc": e.cls.name,
                                         "message": exc_message(e), "inputs": dict(E.concrete_inputs)})
                elif E._check(need_model=True):
                    E.violations.append({"kind": "uncaught", "label": "uncaught:" + e.cls.name, "exc": e.cls.name,
                                         "message": exc_message(e), "inputs": model_inputs(E, E.solver.model())})
            finally:
                E.solver.pop()
            if len(E.violations) >= max_violations:
                if E.work:
                    status = "stopped"
                break
    except Inconclusive as e:
        status = "inconclusive"
        note = str(e)
    except Unsupported as e:
        status = "unsupported"
        note = str(e)
    except RecursionError:
        status = "unsupported"
        note = "host recursion limit"
    res = {
        "status": status, "note": note, "stats": E.stats.as_dict(), "violations": E.violations,
        "reached": dict(E.reached), "models": models, "sym_obs": sym_obs, "completed": completed,
        "pending": [list(t) for t in E.work] if status == "split" else [],
        "wall_s": round(time.time() - t0, 3), "fp_uses": sorted(set(E.fp_uses)),
        "assumptions": sorted(E.assumptions_used), "second": dict(E.second), "known_hits": list(E.known_hits),
    }
    E.stats = stats0
    cp1252.clear_caches()
    return res


def run_concrete(E, fn, args, inputs):
    """All-concrete interpretation (translator self-check): returns outcome + observations."""
    E.concrete_inputs = dict(inputs)
    E.randq = list(inputs.get("__random__", []))
    try:
        res = explore(E, fn, args, max_violations=1)
        if res["status"] not in ("done", "stopped"):
            return {"status": "engine:" + res["status"], "note": res["note"], "observations": E.observations}
        if res["violations"]:
            v = res["violations"][0]
            return {"status": v["kind"], "label": v["label"], "observations": E.observations}
        if res["completed"] == 0:
            return {"status": "assume_failed", "observations": E.observations}
        return {"status": "ok", "observations": E.observations}
    finally:
        E.concrete_inputs = None
