"""Second opinion: a z3 query (assertion stack + extra terms) is dumped as SMT-LIB2 and re-decided by cvc5."""
import time


def recheck(assertions, extra, timeout_ms=10000):
    """-> ('unsat' | 'sat' | 'unknown' | 'error', seconds)"""
    t0 = time.time()
    try:
        import z3
        import cvc5
        s = z3.Solver()
        for a in assertions:
            s.add(a)
        for e in extra:
            s.add(e)
        text = "(set-logic ALL)\n" + s.to_smt2()
        slv = cvc5.Solver()
        slv.setOption("tlimit-per", str(timeout_ms))
        p = cvc5.InputParser(slv)
        p.setStringInput(cvc5.InputLanguage.SMT_LIB_2_6, text, "vsx-query")
        sm = p.getSymbolManager()
        verdict = "unknown"
        while True:
            cmd = p.nextCommand()
            if cmd.isNull():
                break
            out = cmd.invoke(slv, sm)
            o = (out or "").strip()
            if o in ("sat", "unsat", "unknown"):
                verdict = o
            elif o.startswith("(error"):
                return "error", time.time() - t0
        return verdict, time.time() - t0
    except Exception:      # noqa: BLE001 - the second opinion is best effort; only a definite disagreement matters
        return "error", time.time() - t0
