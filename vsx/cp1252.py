"""windows-1252 ('replace') as solver-level table functions.

The tables are regenerated from the *running* interpreter's codec on import and can be compared
exhaustively against another interpreter's codec (see selfcheck_tables / native side).
"""
import z3

from .values import SymInt, SymBool, mk_int, zi

# byte -> code point  (decode 'replace': 5 undefined bytes -> U+FFFD)
DEC = [ord(bytes([b]).decode("cp1252", "replace")) for b in range(256)]
# code point -> byte for the code points that are neither identity-mapped nor replaced by '?'
SPECIAL = {}
for _b in range(0x80, 0xA0):
    _cp = DEC[_b]
    if _cp != 0xFFFD:
        SPECIAL[_cp] = _b
UNDEFINED_BYTES = [b for b in range(256) if DEC[b] == 0xFFFD]


def enc_concrete(cp):
    if 0 <= cp < 0x80 or 0xA0 <= cp <= 0xFF:
        return cp
    return SPECIAL.get(cp, 0x3F)


def encodable_concrete(cp):
    return 0 <= cp < 0x80 or 0xA0 <= cp <= 0xFF or cp in SPECIAL


def table_signature():
    """A compact description of the codec tables, comparable across interpreters."""
    return {"dec": DEC, "special": sorted(SPECIAL.items())}


def full_check():
    """Exhaustively compare the table functions with the host codec (all code points, all bytes)."""
    bad = 0
    for cp in range(0x110000):
        try:
            real = chr(cp).encode("cp1252", "replace")
        except Exception:      # pragma: no cover
            bad += 1
            continue
        if len(real) != 1 or real[0] != enc_concrete(cp):
            bad += 1
    for b in range(256):
        if ord(bytes([b]).decode("cp1252", "replace")) != DEC[b]:
            bad += 1
    return bad


_enc_cache = {}
_dec_cache = {}


def enc(cp):
    """int-like code point -> int-like byte."""
    if isinstance(cp, bool):
        cp = int(cp)
    if isinstance(cp, int):
        return enc_concrete(cp)
    e = zi(cp)
    k = e.get_id()
    hit = _enc_cache.get(k)
    if hit is not None and hit[0].eq(e):
        return hit[1]
    r = z3.IntVal(0x3F)
    for c, b in sorted(SPECIAL.items()):
        r = z3.If(e == c, z3.IntVal(b), r)
    r = z3.If(z3.Or(z3.And(e >= 0, e < 0x80), z3.And(e >= 0xA0, e <= 0xFF)), e, r)
    out = mk_int(r, 8)
    _enc_cache[k] = (e, out)
    return out


def encodable(cp):
    """Bool term / bool: does cp survive encoding (i.e. is not replaced by '?', or is '?')."""
    if isinstance(cp, int):
        return encodable_concrete(cp)
    e = zi(cp)
    return z3.Or(z3.And(e >= 0, e < 0x80), z3.And(e >= 0xA0, e <= 0xFF), *[e == c for c in sorted(SPECIAL)])


def dec(b):
    if isinstance(b, bool):
        b = int(b)
    if isinstance(b, int):
        return DEC[b]
    e = zi(b)
    k = e.get_id()
    hit = _dec_cache.get(k)
    if hit is not None and hit[0].eq(e):
        return hit[1]
    r = e
    for k2 in range(0x80, 0xA0):
        r = z3.If(e == k2, z3.IntVal(DEC[k2]), r)
    out = mk_int(r)
    _dec_cache[k] = (e, out)
    return out


def clear_caches():
    _enc_cache.clear()
    _dec_cache.clear()
