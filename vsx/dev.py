"""Development driver: python3-vt -m vsx.dev <harness.py> <fn> [json-args] [--root DIR]"""
import json, sys, time
from .interp import Engine
from .explore import explore

def main():
    a = sys.argv[1:]
    roots = ["/repo/src"]
    while "--root" in a:
        i = a.index("--root"); roots = [a[i + 1]]; del a[i:i + 2]
    harness, fn = a[0], a[1]
    args = json.loads(a[2]) if len(a) > 2 else []
    E = Engine(roots)
    E.lazy_pkgs = {"eolib", "eolib.protocol", "eolib.protocol.net", "eolib.protocol.map", "eolib.protocol.pub"}
    m = E.load_source("__harness__", open(harness).read(), harness)
    t = time.time()
    res = explore(E, m.ns[fn], args, collect_models=2, max_violations=3)
    res["models"] = res["models"][:2]
    print(json.dumps(res, indent=1, default=str)[:6000])
    print("funcs:", sorted(E.funcs_used))

if __name__ == "__main__":
    main()
