#!/bin/sh
# Offline setup: verifies the tooling the checks need and runs the engine's own smoke test.
set -e
cd "$(dirname "$0")"
PY="${VERIF_PYTHON:-python3-vt}"
"$PY" -c "import z3; print('z3', z3.get_version_string())"
"$PY" -c "import cvc5; print('cvc5', cvc5.__version__)" || echo "cvc5 python module missing: the floating-point lemma falls back to z3"
/venv/bin/python -c "import sys; print('repo python', sys.version.split()[0])"
"$PY" -m vsx.selftest
