"""CrossHair contracts over the real packet sequencer (second engine, thorough tier of C13)."""
import os
import sys
import types

_repo = os.environ.get("VERIF_REPO", "/repo")
_pkg = types.ModuleType("eolib")
_pkg.__path__ = [os.path.join(_repo, "src", "eolib")]
sys.modules.setdefault("eolib", _pkg)
from eolib.packet.packet_sequencer import PacketSequencer  # noqa: E402
from eolib.packet.sequence_start import AccountReplySequenceStart  # noqa: E402


def nth_sequence(start: int, new_start: int, k: int, update_at: int) -> bool:
    """
    pre: 0 <= k <= 24 and 0 <= update_at <= k
    post: _
    """
    q = PacketSequencer(AccountReplySequenceStart.from_value(start))
    cur = start
    ok = True
    for i in range(k):
        if i == update_at:
            q.set_sequence_start(AccountReplySequenceStart.from_value(new_start))
            cur = new_start
        ok = ok and q.next_sequence() == cur + i % 10
    return ok
