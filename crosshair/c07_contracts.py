"""CrossHair contracts over the real number codec (second engine, thorough tier of C07)."""
import os
import sys
import types

_repo = os.environ.get("VERIF_REPO", "/repo")
_pkg = types.ModuleType("eolib")
_pkg.__path__ = [os.path.join(_repo, "src", "eolib")]
sys.modules.setdefault("eolib", _pkg)
from eolib.data.number_encoding_utils import encode_number, decode_number  # noqa: E402


def roundtrip(n: int) -> int:
    """
    pre: 0 <= n < 253 ** 4
    post: _ == n
    """
    return decode_number(encode_number(n))


def wire_safe(n: int) -> bool:
    """
    pre: 0 <= n < 253 ** 4
    post: _
    """
    b = encode_number(n)
    return len(b) == 4 and all(1 <= x <= 254 for x in b)


def short_prefix(n: int) -> int:
    """
    pre: 0 <= n < 253 ** 2
    post: _ == n
    """
    b = encode_number(n)
    return decode_number(b[:2]) if b[2] == 0xFE and b[3] == 0xFE else -1
