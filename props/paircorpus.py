"""Mechanically generated spec corpus: every ordered pair (and every single) of 42 instruction templates in seven
contexts (top level, inside <chunked>, inside a <case>, inside a <case> inside <chunked>, after a <chunked>,
and `byte; <chunked>A</chunked>; B`: raw data ahead of a break-less chunked section with a tail; and `<chunked>A<break/>B</chunked>`).

It widens the *programs* dimension far beyond the hand-written core corpus: the seeded changes that the core
corpus missed all needed a particular neighbourhood of two instructions.  The tree is written to a temp
directory at run time (deterministic for a given selection); nothing of it is stored.
"""
import atexit
import os
import random
import shutil
import tempfile

HERE = os.path.dirname(os.path.dirname(os.path.abspath(__file__)))
CORE = os.path.join(HERE, "corpus", "core", "xml")

# name, xml, flags: C = needs a chunked context, O = starts (and ends) with an optional instruction,
#                   E = starts required but ends with an optional instruction,
#                   D = dummy (nothing may follow), B = <break/> (resets the optional state)
TEMPLATES = [
    ("char", '<field name="{p}c" type="char"/>', ""),
    ("byte", '<field name="{p}b" type="byte"/>', ""),
    ("short", '<field name="{p}sh" type="short"/>', ""),
    ("three", '<field name="{p}t" type="three"/>', ""),
    ("bool", '<field name="{p}f" type="bool"/>', ""),
    ("enum", '<field name="{p}e" type="Direction"/>', ""),
    ("enumwide", '<field name="{p}w" type="Direction:short"/>', ""),
    ("fixstr", '<field name="{p}s" type="string" length="2"/>', ""),
    ("padstr", '<field name="{p}p" type="string" length="2" padded="true"/>', ""),
    ("encfix", '<field name="{p}x" type="encoded_string" length="2"/>', ""),
    ("encpad", '<field name="{p}y" type="encoded_string" length="3" padded="true"/>', ""),
    ("str", '<field name="{p}u" type="string"/>', ""),
    ("encstr", '<field name="{p}v" type="encoded_string"/>', ""),
    ("blob", '<field name="{p}z" type="blob"/>', ""),
    ("coords", '<field name="{p}k" type="Coords"/>', ""),
    ("named", '<field name="{p}n" type="Named"/>', ""),
    ("thing", '<field name="{p}h" type="NamedThing"/>', ""),
    ("lenstr", '<length name="{p}l" type="char"/><field name="{p}ls" type="string" length="{p}l"/>', ""),
    ("lenarr", '<length name="{p}m" type="char" offset="1"/><array name="{p}ma" type="Coords" length="{p}m"/>', ""),
    ("fixarr", '<array name="{p}a" type="Coords" length="2"/>', ""),
    ("tailfixed", '<array name="{p}ta" type="Coords"/>', ""),
    ("tailshort", '<array name="{p}tb" type="short"/>', ""),
    ("tailnamed", '<array name="{p}tn" type="Named"/>', ""),
    ("tailbyte", '<array name="{p}ty" type="byte"/>', ""),
    ("lenbytes", '<length name="{p}yl" type="char"/><array name="{p}ya" type="byte" length="{p}yl"/>', ""),
    ("delim", '<array name="{p}d" type="string" delimited="true"/>', "C"),
    ("delimfixed", '<array name="{p}dn" type="string" length="2" delimited="true" trailing-delimiter="false"/>', "C"),
    ("delimthings", '<array name="{p}ds" type="NamedThing" delimited="true" trailing-delimiter="false"/>', "C"),
    ("optchar", '<field name="{p}oc" type="char" optional="true"/>', "O"),
    ("optstr", '<field name="{p}os" type="string" length="2" optional="true"/>', "O"),
    ("optarr", '<array name="{p}oa" type="short" optional="true"/>', "O"),
    ("lenoptarr", '<length name="{p}ol" type="char"/><array name="{p}ola" type="short" length="{p}ol" optional="true"/>', "E"),
    ("optlenstr", '<length name="{p}pl" type="char" optional="true"/><field name="{p}pls" type="string" length="{p}pl" optional="true"/>', "O"),
    ("hard", '<field type="char">7</field>', ""),
    ("hardstr", '<field name="{p}hs" type="string" length="2">ok</field>', ""),
    ("dummy", '<dummy type="short">0</dummy>', "D"),
    ("break", '<break/>', "CB"),
    ("switchint", '<field name="{p}q" type="char"/><switch field="{p}q"><case value="1"><field name="x" type="char"/></case>'
                  '<case default="true"><field name="y" type="string" length="1"/></case></switch>', ""),
    ("switchenum", '<field name="{p}r" type="ItemKind"/><switch field="{p}r"><case value="Weapon"><chunked><field name="n" type="string"/>'
                   '<break/></chunked></case><case value="Armor"/></switch>', ""),
    ("chunk", '<chunked><field name="{p}cs" type="string"/><break/><field name="{p}cc" type="char"/></chunked>', ""),
    ("switchopt", '<field name="{p}so" type="char"/><switch field="{p}so"><case value="1"><field name="x" type="char" optional="true"/></case>'
                  '<case value="2"><field name="y" type="short"/></case></switch>', "E"),
    ("optswitch", '<field name="{p}os" type="char"/><field name="{p}ox" type="char" optional="true"/><switch field="{p}os"><case value="1">'
                  '<field name="x" type="char" optional="true"/></case></switch>', "E"),
]
CONTEXTS = ("T", "K", "S", "Q", "A", "Y", "B")     # top, chunKed, caSe, case in chunk (Q), After a chunk, Y: byte; <chunked>A</chunked>; B
_made = []


def _cleanup():
    for d in _made:
        shutil.rmtree(d, ignore_errors=True)


atexit.register(_cleanup)


def ends_opt(flags):
    return "O" in flags or "E" in flags


def in_chunk(ctx):
    return ctx in ("K", "Q", "B")


def valid(ctx, a, b):
    """eo-protocol grammar rules for `A B` in the given context (b may be None)."""
    if ctx == "B":
        # <chunked> A <break/> B </chunked>: two segments of one chunked section (state must not leak across the break)
        if b is None:
            return False
        fa, fb = TEMPLATES[a][2], TEMPLATES[b][2]
        return "D" not in fa and "B" not in fa and "B" not in fb
    if ctx == "Y":
        # a raw byte, then A alone inside a chunked section (no break of its own around it), then B after the section
        fa = TEMPLATES[a][2]
        if "D" in fa or "B" in fa:
            return False
        if b is None:
            return True
        fb = TEMPLATES[b][2]
        if "C" in fb:
            return False
        if ends_opt(fa) and not ("O" in fb or "D" in fb):
            return False
        return True
    fa = TEMPLATES[a][2]
    if "C" in fa and not in_chunk(ctx):
        return False
    if b is None:
        return True
    fb = TEMPLATES[b][2]
    if "C" in fb and not in_chunk(ctx):
        return False
    if "D" in fa:
        return False                      # nothing may follow a dummy
    if ends_opt(fa) and not ("O" in fb or "B" in fb or "D" in fb):
        return False                      # required instruction after an optional one
    return True


def wrap(ctx, body, parts=None):
    if ctx == "Y":
        a, b = parts
        return '<field name="hy" type="byte"/><chunked>' + a + "</chunked>" + b
    if ctx == "B":
        a, b = parts
        return "<chunked>" + a + "<break/>" + b + "</chunked>"
    if ctx == "T":
        return body
    if ctx == "K":
        return "<chunked>" + body + "</chunked>"
    if ctx == "S":
        return '<field name="sel" type="char"/><switch field="sel"><case value="1">' + body + "</case></switch>"
    if ctx == "Q":
        return '<chunked><field name="sel" type="char"/><switch field="sel"><case value="1">' + body + "</case></switch></chunked>"
    return '<chunked><field name="hs" type="string"/><break/><field name="hg" type="char"/></chunked>' + body


def struct_name(ctx, a, b, c=None):
    return "Pr%s%02d%s%s" % (ctx, a, ("%02d" % b) if b is not None else "xx", ("%02d" % c) if c is not None else "")


def valid_triple(ctx, a, b, c):
    """A B C in one body (U: top level, V: inside <chunked>): the pairwise ordering rules, applied in sequence"""
    base = "T" if ctx == "U" else "K"
    if not valid(base, a, b):
        return False
    fb, fc = TEMPLATES[b][2], TEMPLATES[c][2]
    if "C" in fc and base != "K":
        return False
    if "D" in fb:
        return False
    # optional state after B: set by an optional B, cleared by a break, otherwise inherited from A
    fa = TEMPLATES[a][2]
    opt = ends_opt(fb) or (ends_opt(fa) and "B" not in fb)
    if opt and not ("O" in fc or "B" in fc or "D" in fc):
        return False
    return True


def triples(seed, n):
    rnd = random.Random(seed * 7919 + 13)
    out = []
    tries = 0
    k = len(TEMPLATES)
    while len(out) < n and tries < n * 50:
        tries += 1
        ctx = rnd.choice(("U", "V"))
        a, b, c = rnd.randrange(k), rnd.randrange(k), rnd.randrange(k)
        if valid_triple(ctx, a, b, c) and (ctx, a, b, c) not in out:
            out.append((ctx, a, b, c))
    return out


def all_specs():
    out = []
    n = len(TEMPLATES)
    for ctx in CONTEXTS:
        for a in range(n):
            if valid(ctx, a, None):
                out.append((ctx, a, None))
            for b in range(n):
                if valid(ctx, a, b):
                    out.append((ctx, a, b))
    return out


THOROUGH_TRIPLES = 2500


def size_text():
    """what the thorough tiers run over, for the bounds statements"""
    n = len(all_specs())
    return (f"ALL {n:,} structs of the generated pair corpus (every single and every grammatical ordered pair of {len(TEMPLATES)} instruction "
            f"templates in {len(CONTEXTS)} contexts) plus {THOROUGH_TRIPLES:,} VERIF_SEED-chosen instruction triples")


def select(tier, seed, sample=None, with_singles=True):
    specs = all_specs()
    if tier == "thorough" and sample is None:
        return specs + triples(seed, THOROUGH_TRIPLES)
    singles = [s for s in specs if s[2] is None]
    pairs = [s for s in specs if s[2] is not None]
    rnd = random.Random(seed)
    n = sample if sample is not None else 160
    if with_singles:
        return singles + rnd.sample(pairs, min(len(pairs), n)) + triples(seed, max(10, n // 4))
    return rnd.sample(specs, min(len(specs), n)) + triples(seed, max(5, n // 6))


SHARED_ENUMS = '''  <enum name="ItemKind" type="char"><value name="General">0</value><value name="Weapon">1</value><value name="Armor">2</value></enum>
'''
SHARED_STRUCTS = '''  <struct name="Named"><length name="name_length" type="char"/><field name="name" type="string" length="name_length"/></struct>
  <struct name="NamedThing"><chunked><field name="name" type="string"/><break/><field name="level" type="char"/></chunked></struct>
'''
PACKET_ENUMS = '''  <enum name="PacketFamily" type="byte"><value name="Connection">1</value></enum>
  <enum name="PacketAction" type="byte"><value name="Request">1</value></enum>
'''


def make(specs, layout="A"):
    """write the spec tree -> xml_dir.
    layout A: shared types in the root file and in net/ ahead of the generated structs (definitions are walked first);
    layout B: the generated structs live in the ROOT file (walked first) and every shared type they use is defined
              in pub/server/ (walked later): forward references across files, type resolution before definition."""
    out = tempfile.mkdtemp(prefix="vsx-pairs-")
    _made.append(out)
    for rel in (".", "map", "net", "net/client", "net/server", "pub", "pub/server"):
        os.makedirs(os.path.join(out, rel), exist_ok=True)
        open(os.path.join(out, rel, "protocol.xml"), "w").write("<protocol></protocol>\n")
    core_root = open(os.path.join(CORE, "protocol.xml")).read()
    body = []
    for spec in specs:
        ctx, a, b = spec[0], spec[1], spec[2]
        pa = TEMPLATES[a][1].format(p="fa")
        pb = TEMPLATES[b][1].format(p="fb") if b is not None else ""
        if len(spec) == 4:
            pc = TEMPLATES[spec[3]][1].format(p="fc")
            inner = pa + pb + pc
            body.append('  <struct name="%s">%s</struct>\n' % (struct_name(ctx, a, b, spec[3]), inner if ctx == "U" else "<chunked>" + inner + "</chunked>"))
            continue
        body.append('  <struct name="%s">%s</struct>\n' % (struct_name(ctx, a, b), wrap(ctx, pa + pb, (pa, pb))))
    if layout == "A":
        shutil.copy(os.path.join(CORE, "protocol.xml"), os.path.join(out, "protocol.xml"))
        open(os.path.join(out, "net", "protocol.xml"), "w").write(
            "<protocol>\n" + PACKET_ENUMS + SHARED_ENUMS + SHARED_STRUCTS + "".join(body) + "</protocol>\n")
    else:
        # core root types (Direction, Mode, Coords, Spell, RootWide ...) move to pub/server together with the shared ones
        inner_core = core_root[core_root.index("<protocol>") + len("<protocol>"):core_root.rindex("</protocol>")]
        open(os.path.join(out, "pub", "server", "protocol.xml"), "w").write(
            "<protocol>\n" + SHARED_ENUMS + inner_core + SHARED_STRUCTS + "</protocol>\n")
        open(os.path.join(out, "net", "protocol.xml"), "w").write("<protocol>\n" + PACKET_ENUMS + "</protocol>\n")
        open(os.path.join(out, "protocol.xml"), "w").write("<protocol>\n" + "".join(body) + "</protocol>\n")
    return out


def describe(name):
    """human-readable description of a generated struct name"""
    if not name.startswith("Pr") or len(name) < 7:
        return name
    ctx = {"T": "top level", "K": "in <chunked>", "S": "in <case>", "Q": "in <case> in <chunked>", "A": "after a <chunked>", "Y": "byte, then A in <chunked>, then B", "B": "A <break/> B in <chunked>", "U": "triple at top level", "V": "triple in <chunked>"}.get(name[2], "?")
    a = TEMPLATES[int(name[3:5])][0]
    b = name[5:7]
    c = name[7:9]
    return f"{a}" + (f" then {TEMPLATES[int(b)][0]}" if b.isdigit() else "") + (f" then {TEMPLATES[int(c)][0]}" if c.isdigit() else "") + f" ({ctx})"
