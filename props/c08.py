ID = "C08"
LEVEL = "model_checking"
HARNESS = "harness/c08_string.py"
MODE = "src"
EXPLANATION = ("For each length L up to the bound all 256^L byte strings are one symbolic input; the per-byte branches of the codec are "
               "if-converted so each length is a single path whose obligations z3 discharges position by position.")
BOUNDS = {"quick": "every byte string of every length 0..24 and of the lengths 31..33, 63..65, 127, 128 (size-threshold boundaries) (both length parities, both position parities, all 256 byte values at every position); length 513; images again after earlier calls on other strings",
          "thorough": "every byte string of every length 0..128 and of the lengths 255, 256, 257; lengths 513, 1025, 2049"}
OUTSIDE = "byte strings longer than the bound"
ASSUMPTIONS = ["bytearray cells are integers 0..255 (enforced on every store, as CPython does)"]


def jobs(tier):
    return [dict(j, second_solver=(6 if tier == "thorough" and j["args"][-1] <= 12 else 0)) for j in _jobs(tier)]


def _jobs(tier):
    lens = (list(range(0, 25)) + [31, 32, 33, 63, 64, 65, 127, 128, 513]) if tier == "quick" else (list(range(0, 129)) + [255, 256, 257, 513, 1025, 2049])
    js = []
    for L in lens:
        exp = [] if L == 0 else None
        js.append(dict(name=f"encode_image[{L}]", fn="encode_image", args=[L], collect_models=1,
                       expect=["length preserved"] + ([] if L == 0 else ["encode: out[L-1-i] == O-str(in[i])"])))
        js.append(dict(name=f"decode_image[{L}]", fn="decode_image", args=[L], collect_models=1,
                       expect=["length preserved"] + ([] if L == 0 else ["decode: out[L-1-i] == O-str(in[i])"])))
        js.append(dict(name=f"inverse[{L}]", fn="inverse", args=[L], collect_models=1,
                       expect=["length preserved"] + ([] if L == 0 else ["decode(encode(x))[i] == x[i] unless 0x7E"])))
    for L0, L in (((1, 1), (2, 3), (3, 2), (4, 4)) if tier == "quick" else [(a, b) for a in range(0, 7) for b in range(0, 7)] + [(33, 33), (64, 65)]):
        js.append(dict(name=f"after_earlier_calls[{L0},{L}]", fn="after_earlier_calls", args=[L0, L], collect_models=1,
                       expect=["after earlier calls: length preserved"]))
    return js
