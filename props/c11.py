ID = "C11"
LEVEL = "model_checking"
HARNESS = "harness/c11_hash.py"
MODE = "src"
EXHAUSTIVE = True      # the whole finite input space is one symbolic query family (decided, not enumerated)
EXPLANATION = "One symbolic challenge over the whole three-byte field; non-linear integer arithmetic decided by z3, plus an 11-way linear case split as a second route."
BOUNDS = {"quick": "all 253^3 = 16,194,277 challenges (whole field symbolic); range obligations over all challenges 0..11,092,110; every ordered pair of challenges hashed one after the other in one process (both symbolic)",
          "thorough": "same domain; additionally the 11-way case split on (challenge+1) mod 11 re-decides the obligation with constant divisors"}
OUTSIDE = "challenges outside the three-byte field"
ASSUMPTIONS = ["the game client's arithmetic is the published formula with C-style truncating remainder (O-hash)"]


def jobs(tier):
    return [dict(j, second_solver=(10 if tier == "thorough" else 0)) for j in _jobs(tier)]


def _jobs(tier):
    js = [dict(name="client_arithmetic", fn="client_arithmetic", args=[], collect_models=3, expect=["hash equals the client's truncating arithmetic"]),
          dict(name="documented_range", fn="documented_range", args=[], collect_models=3, expect=["non-negative up to the documented bound"]),
          dict(name="two_calls", fn="two_calls", args=[], collect_models=2, expect=["second hash in a process equals the client's arithmetic"])]
    if tier == "thorough":
        for r in range(11):
            js.append(dict(name=f"split[{r}]", fn="client_arithmetic_split", args=[r], collect_models=1))
    return js
