from . import corpus
from .c16 import count_sites
ID = "C15"
LEVEL = "fault_enumeration"
HARNESS = "harness/c15_modes.py"
MODE = "corpus"
EXPLANATION = ("Bounded model checking with fault injection: for every corpus class, serialize runs over valid and single-violation objects with a symbolic entry mode and a writer that raises at its "
               "k-th call (k value-forked over every call index), deserialize runs over all byte strings of length n with both entry modes and a reader that raises at its k-th call. "
               "On every path - returning, SerializationError, ValueError, injected fault - z3 decides mode-after == mode-before.")
BOUNDS = {"quick": "every class of corpus/core plus a VERIF_SEED-chosen sample of 70 structs of the generated pair corpus; serialize: strings 0/1, arrays 0/1, every violation site, fault at call k for every k up to min(12, static bound on the number of calls + 1); deserialize: every byte string of length 0..3, fault at every call k up to min(8, static bound + 1), decoded counts up to 6",
          "thorough": "core corpus (per class the richest lens/counts configuration up to 2 whose structure count stays <= 60) plus a VERIF_SEED-chosen sample of 1000 structs of the generated pair corpus (1500 + all singles for the nesting clause); k up to 24; deserialize lengths 0..5, k up to 16"}
OUTSIDE = "specifications not in the corpus (the nesting clause is checked as wire/reading equality with O-xml on every corpus class that nests a structure); faults other than an exception raised by a reader/writer method"
ASSUMPTIONS = ["faults are exceptions raised by public add_*/get_*/next_chunk methods of a reader/writer subclass"]


import os
ALL = bool(os.environ.get("VERIF_C15_ALL"))     # validation run over the entire pair corpus (hours)


def _n(tier, quick, thorough):
    if tier == "quick":
        return quick
    return None if ALL else thorough


def trees(tier):
    return [("core", corpus.CORE), ("pairs", corpus.pairs(tier, corpus.seed(), _n(tier, 70, 1000), False)[0]), ("pairs2", corpus.pairs(tier, corpus.seed(), _n(tier, 160, 1500))[0])]


def programs(tier):
    return len(corpus.classes()[1])


def jobs(tier):
    types, cls = corpus.classes()
    q = tier == "quick"
    cfg = {"lens": [0, 1], "counts": [0, 1]} if q else {"lens": [0, 1, 2], "counts": [0, 1, 2]}
    mult = max(cfg["counts"]) + 1
    js = []
    for c in cls:
        ccfg = cfg if q else corpus.choose_cfg(types, c["instrs"], [{"lens": [0, 1], "counts": [0, 1]}, {"lens": [0, 1], "counts": [0, 1, 2]}, {"lens": [0, 1, 2], "counts": [0, 1, 2]}], 60)
        sites = count_sites(types, c["instrs"], max(ccfg["counts"]) + 1)
        js.append(dict(name=f"serialize_modes[{c['name']}]", fn="serialize_modes", args=[corpus.closure(types, c["instrs"]), c, ccfg, sites + 2, min(12 if q else 24, corpus.calls_bound(types, c["instrs"], max(ccfg["counts"])) + 1)], tree="core",
                       collect_models=1, expect=["writer sanitisation mode is what it was on entry"]))
        for n in range(0, (3 if q else 5) + 1):
            js.append(dict(name=f"deserialize_modes[{c['name']},n={n}]", fn="deserialize_modes", args=[corpus.closure(types, c["instrs"]), c, n, min(8 if q else 16, corpus.calls_bound(types, c["instrs"], n + 1) + 1), 6 if q else 24], tree="core",
                           collect_models=1, expect=["reader chunked mode is what it was on entry"]))
        js.append(dict(name=f"nested[{c['name']}]", fn="nested_not_chunked", args=[corpus.closure(types, c["instrs"]), c, cfg if q else ccfg], tree="core", collect_models=1))
    def nests(instrs, in_chunk=False):
        """something whose mode 'in effect' matters: a nested struct, a chunked element inside a chunked region
        (directly or through a case), a switch inside a chunked region"""
        for i in instrs:
            if i[0] in ("field", "array") and i[2][0] == "struct":
                return True
            if i[0] == "chunked" and (in_chunk or nests(i[1], True)):
                return True
            if i[0] == "switch" and in_chunk:
                return True
            if i[0] == "switch" and any(nests(c[3]) for c in i[2]):
                return True
        return False
    _, atypes, acls = corpus.pairs(tier, corpus.seed(), _n(tier, 160, 1500))          # the nesting clause uses a larger pair sample
    for src, tname, tt, cc in [("", "core", types, cls), ("pairs:", "pairs2", atypes, acls)]:
        for c in cc:
            if not nests(c["instrs"]):
                continue
            t = corpus.closure(tt, c["instrs"])
            js.append(dict(name=f"nested_sanitised[{src}{c['name']}]", fn="nested_sanitised", args=[t, c, {"lens": [0, 1], "counts": [0, 1]}], tree=tname, collect_models=1,
                           expect=["serialized length equals the prescribed length"]))
            for n in ((2, 3) if q else (1, 2, 3, 4)):
                js.append(dict(name=f"nested_read[{src}{c['name']},n={n}]", fn="nested_read", args=[t, c, n, 6], tree=tname, collect_models=1,
                               expect=["reader mode restored"]))
    _, ptypes, pcls = corpus.pairs(tier, corpus.seed(), _n(tier, 70, 1000), False)
    pcfg = {"lens": [0, 1], "counts": [0, 1]}
    for c in pcls:
        t = corpus.closure(ptypes, c["instrs"])
        sites = count_sites(ptypes, c["instrs"], 2)
        js.append(dict(name=f"serialize_modes[pairs:{c['name']}]", fn="serialize_modes", args=[t, c, pcfg, sites + 2, min(8 if q else 12, corpus.calls_bound(ptypes, c["instrs"], 1) + 1)], tree="pairs",
                       collect_models=1, expect=["writer sanitisation mode is what it was on entry"]))
        for n in ((2,) if q else (1, 3)):
            js.append(dict(name=f"deserialize_modes[pairs:{c['name']},n={n}]", fn="deserialize_modes", args=[t, c, n, min(6 if q else 10, corpus.calls_bound(ptypes, c["instrs"], n + 1) + 1), 6], tree="pairs",
                           collect_models=1, expect=["reader chunked mode is what it was on entry"]))
    return js
