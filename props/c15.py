from . import corpus
from .c16 import count_sites
ID = "C15"
LEVEL = "fault_enumeration"
HARNESS = "harness/c15_modes.py"
MODE = "corpus"
EXPLANATION = ("Bounded model checking with fault injection: for every corpus class, serialize runs over valid and single-violation objects with a symbolic entry mode and a writer that raises at its "
               "k-th call (k value-forked over every call index), deserialize runs over all byte strings of length n with both entry modes and a reader that raises at its k-th call. "
               "On every path - returning, SerializationError, ValueError, injected fault - z3 decides mode-after == mode-before.")
BOUNDS = {"quick": "every class of corpus/core plus a VERIF_SEED-chosen sample of 70 structs of the generated pair corpus; serialize: strings 0/1, arrays 0/1, every violation site, fault at call k for k = 0..12; deserialize: every byte string of length 0..3, fault at call k = 0..8, decoded counts up to 6",
          "thorough": "core corpus (per class the richest lens/counts configuration up to 2 whose structure count stays <= 60) plus ALL structs of the generated pair corpus; k up to 24; deserialize lengths 0..5, k up to 16"}
OUTSIDE = "specifications not in the corpus; faults other than an exception raised by a reader/writer method"
ASSUMPTIONS = ["faults are exceptions raised by public add_*/get_*/next_chunk methods of a reader/writer subclass"]


def trees(tier):
    return [("core", corpus.CORE), ("pairs", corpus.pairs(tier, corpus.seed(), 70, False)[0])]


def programs(tier):
    return len(corpus.classes()[1])


def jobs(tier):
    types, cls = corpus.classes()
    q = tier == "quick"
    cfg = {"lens": [0, 1], "counts": [0, 1]} if q else {"lens": [0, 1, 2], "counts": [0, 1, 2]}
    mult = max(cfg["counts"]) + 1
    js = []
    for c in cls:
        ccfg = cfg if q else corpus.choose_cfg(types, c["instrs"], [{"lens": [0, 1], "counts": [0, 1]}, {"lens": [0, 1], "counts": [0, 1, 2]}, {"lens": [0, 1, 2], "counts": [0, 1, 2]}], 60)
        sites = count_sites(types, c["instrs"], max(ccfg["counts"]) + 1)
        js.append(dict(name=f"serialize_modes[{c['name']}]", fn="serialize_modes", args=[corpus.closure(types, c["instrs"]), c, ccfg, sites + 2, 12 if q else 24], tree="core",
                       collect_models=1, expect=["writer sanitisation mode is what it was on entry"]))
        for n in range(0, (3 if q else 5) + 1):
            js.append(dict(name=f"deserialize_modes[{c['name']},n={n}]", fn="deserialize_modes", args=[corpus.closure(types, c["instrs"]), c, n, 8 if q else 16, 6 if q else 24], tree="core",
                           collect_models=1, expect=["reader chunked mode is what it was on entry"]))
        js.append(dict(name=f"nested[{c['name']}]", fn="nested_not_chunked", args=[corpus.closure(types, c["instrs"]), c, cfg if q else ccfg], tree="core", collect_models=1))
    _, ptypes, pcls = corpus.pairs(tier, corpus.seed(), 70, False)
    pcfg = {"lens": [0, 1], "counts": [0, 1]}
    for c in pcls:
        t = corpus.closure(ptypes, c["instrs"])
        sites = count_sites(ptypes, c["instrs"], 2)
        js.append(dict(name=f"serialize_modes[pairs:{c['name']}]", fn="serialize_modes", args=[t, c, pcfg, sites + 2, 8 if q else 12], tree="pairs",
                       collect_models=1, expect=["writer sanitisation mode is what it was on entry"]))
        for n in ((2,) if q else (1, 3)):
            js.append(dict(name=f"deserialize_modes[pairs:{c['name']},n={n}]", fn="deserialize_modes", args=[t, c, n, 6 if q else 10, 6], tree="pairs",
                           collect_models=1, expect=["reader chunked mode is what it was on entry"]))
    return js
