from . import corpus
ID = "C19"
LEVEL = "model_checking"
HARNESS = "harness/c19_immutable.py"
MODE = "corpus"
EXPLANATION = ("Solver-decided part: with symbolic field values, serializing an instance twice (constructed and deserialized) gives identical bytes, also after the caller appends to / empties the very "
               "lists the object was built from (heap aliasing is modelled, so a generator that dropped tuple(...) yields a counterexample). The clause 'assignment raises AttributeError' has no values to "
               "quantify over: it is decided by executing setattr for every public field and byte_size of every (nested) object in the interpreter's descriptor semantics on every explored path and "
               "confirmed by native replay of the same harness.")
BOUNDS = {"quick": "every class of corpus/core plus a VERIF_SEED-chosen sample of 80 pairs + all singles of the generated pair corpus; strings 0/1, arrays 0/1/2 elements (fixed ones at their length), all leaf values symbolic; a second deserialize and reuse of the receive buffer after the read",
          "thorough": "core corpus with strings and arrays up to 2, plus ALL structs of the generated pair corpus"}
OUTSIDE = "specifications not in the corpus; the deserialized-instance clauses on wire-ambiguous layouts of the generated corpus (they are checked on every core class and on the unambiguous generated ones); mutation through private attributes or object.__setattr__ (not the public interface)"
ASSUMPTIONS = ["re-reading an instance's own bytes: element counts decoded from the wire are explored up to 8 (a wire-ambiguous layout can decode a count of up to 253 from shifted data)",
               "Python property objects without a setter raise AttributeError on assignment (descriptor semantics as modelled by the interpreter; confirmed natively per path model)"]


def trees(tier):
    return [("core", corpus.CORE), ("pairs", corpus.pairs(tier, corpus.seed(), 80 if tier == "quick" else None)[0])]


def programs(tier):
    return len(corpus.classes()[1])


def jobs(tier):
    types, cls = corpus.classes()
    cfg = {"lens": [0, 1], "counts": [0, 1, 2]} if tier == "quick" else {"lens": [0, 1, 2], "counts": [0, 1, 2]}
    CANDS = [{"lens": [0, 1], "counts": [0, 1]}, {"lens": [0, 1], "counts": [0, 1, 2]}, {"lens": [0, 1, 2], "counts": [0, 1, 2]}]
    js = [dict(name=f"immutable[{c['name']}]", fn="immutable", args=[corpus.closure(types, c["instrs"]), c,
                                                                  cfg if tier == "quick" else corpus.choose_cfg(types, c["instrs"], [{"lens": [0, 1], "counts": [0, 1]}, {"lens": [0, 1], "counts": [0, 1, 2]}, {"lens": [0, 1, 2], "counts": [0, 1, 2]}], 1500)],
               tree="core", collect_models=2, expect=["serializing the same instance twice yields identical bytes"]) for c in cls]
    def has_int_array(instrs):
        return any((i[0] == "array" and i[2][0] == "int") or (i[0] == "chunked" and has_int_array(i[1])) for i in instrs)
    for c in cls:
        if has_int_array(c["instrs"]):
            js.append(dict(name=f"array_kinds[{c['name']}]", fn="array_kinds", args=[corpus.closure(types, c["instrs"]), c, {"lens": [0, 1], "counts": [1, 2]}],
                           tree="core", collect_models=1))
    _, ptypes, pcls = corpus.pairs(tier, corpus.seed(), 80 if tier == "quick" else None)
    pcfg = {"lens": [0, 1], "counts": [0, 1]}
    # the deserialized-instance clauses re-read the instance's own bytes: for the generated corpus that is done where the
    # layout is wire-unambiguous (props/unambiguous.py); an ambiguous layout re-reads shifted data with decoded counts of
    # up to 253 elements, which says nothing about immutability and costs minutes per class
    from .unambiguous import unambiguous
    js += [dict(name=f"immutable[pairs:{c['name']}]", fn="immutable",
                args=[corpus.closure(ptypes, c["instrs"]), c, pcfg, bool(unambiguous(ptypes, c["instrs"], c["entry"]))], tree="pairs", collect_models=1,
                expect=["serializing the same instance twice yields identical bytes"]) for c in pcls]
    return js
