from . import corpus
ID = "C19"
LEVEL = "model_checking"
HARNESS = "harness/c19_immutable.py"
MODE = "corpus"
EXPLANATION = ("Solver-decided part: with symbolic field values, serializing an instance twice (constructed and deserialized) gives identical bytes, also after the caller appends to / empties the very "
               "lists the object was built from (heap aliasing is modelled, so a generator that dropped tuple(...) yields a counterexample). The clause 'assignment raises AttributeError' has no values to "
               "quantify over: it is decided by executing setattr for every public field and byte_size of every (nested) object in the interpreter's descriptor semantics on every explored path and "
               "confirmed by native replay of the same harness.")
BOUNDS = {"quick": "every class of corpus/core; strings 0/1, arrays 0/1/2 elements (fixed ones at their length), all leaf values symbolic",
          "thorough": "strings and arrays up to 2"}
OUTSIDE = "specifications not in the corpus; mutation through private attributes or object.__setattr__ (not the public interface)"
ASSUMPTIONS = ["Python property objects without a setter raise AttributeError on assignment (descriptor semantics as modelled by the interpreter; confirmed natively per path model)"]


def trees(tier):
    return [("core", corpus.CORE)]


def programs(tier):
    return len(corpus.classes()[1])


def jobs(tier):
    types, cls = corpus.classes()
    cfg = {"lens": [0, 1], "counts": [0, 1, 2]} if tier == "quick" else {"lens": [0, 1, 2], "counts": [0, 1, 2]}
    return [dict(name=f"immutable[{c['name']}]", fn="immutable", args=[types, c, cfg], tree="core", collect_models=2,
                 expect=["serializing the same instance twice yields identical bytes"]) for c in cls]
