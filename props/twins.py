"""Twin spec trees: the core corpus with ONE boolean attribute's default spelled out explicitly wherever it is
meaningful.  Derived mechanically at run time (never stored)."""
import os, shutil, tempfile, atexit
import xml.etree.ElementTree as ET

TWINS = {
    "optional-false": ("optional", "false"),
    "padded-false": ("padded", "false"),
    "delimited-false": ("delimited", "false"),
    "trailing-delimiter-true": ("trailing-delimiter", "true"),
    "default-false": ("default", "false"),
}
_made = []


def _cleanup():
    for d in _made:
        shutil.rmtree(d, ignore_errors=True)


atexit.register(_cleanup)


def _apply(root, attr, value):
    n = 0
    for el in root.iter():
        if attr == "optional" and el.tag in ("field", "array", "length") and el.get("optional") is None and el.get("name") is not None:
            el.set("optional", value); n += 1
        elif attr == "padded" and el.tag == "field" and el.get("padded") is None and el.get("length") is not None \
                and el.get("type", "").split(":")[0] in ("string", "encoded_string"):
            el.set("padded", value); n += 1
        elif attr == "delimited" and el.tag == "array" and el.get("delimited") is None:
            el.set("delimited", value); n += 1
        elif attr == "trailing-delimiter" and el.tag == "array" and el.get("delimited") == "true" and el.get("trailing-delimiter") is None:
            el.set("trailing-delimiter", value); n += 1
        elif attr == "default" and el.tag == "case" and el.get("default") is None:
            el.set("default", value); n += 1
    return n


def make(core_xml, name):
    attr, value = TWINS[name]
    out = tempfile.mkdtemp(prefix="vsx-twin-")
    _made.append(out)
    total = 0
    for root, _, files in os.walk(core_xml):
        for f in files:
            if f != "protocol.xml":
                continue
            src = os.path.join(root, f)
            rel = os.path.relpath(src, core_xml)
            dst = os.path.join(out, rel)
            os.makedirs(os.path.dirname(dst), exist_ok=True)
            tree = ET.parse(src)
            total += _apply(tree.getroot(), attr, value)
            tree.write(dst)
    return out, total
