from . import corpus
ID = "C01"
LEVEL = "model_checking"
HARNESS = "harness/c01_roundtrip.py"
MODE = "corpus"
EXPLANATION = ("For every round-trip class of the spec corpus the repository's own generator output is executed symbolically together with the real EoWriter/EoReader: "
               "structure (string lengths, array counts, optional presence, case selection) is value-forked, all leaf values are solver variables over their whole range.")
BOUNDS = {"quick": "corpus: every wire-unambiguous class of corpus/core (programs quantifier = this fixed corpus); strings of length 0 or 1 (fixed-length ones at their length), arrays of 0, 1 or 2 elements (fixed at their length); integers/ordinals/code points over their full range",
          "thorough": "same corpus; per class the richest of (lens<=1,counts<=2) (lens<=2,counts<=2) (lens<=3,counts<=2) (lens<=3,counts<=3) whose structure count stays <= 6000 (the choice is in each job name)"}
OUTSIDE = "specifications not in the corpus; longer strings and arrays; wire-ambiguous specs (C01's own quantifier excludes them)"
ASSUMPTIONS = ["validity predicate of C01: cp1252-encodable strings, no y-diaeresis where sanitised or padded, no '~' in encoded strings, present optionals serialize to at least one byte, "
               "elements of unbounded delimited arrays begin with a non-empty first chunk (otherwise indistinguishable from end of data)"]


def trees(tier):
    return [("core", corpus.CORE)]


def programs(tier):
    return len(corpus.classes("roundtrip")[1])


THOROUGH = [{"lens": [0, 1], "counts": [0, 1, 2]}, {"lens": [0, 1, 2], "counts": [0, 1, 2]}, {"lens": [0, 1, 2, 3], "counts": [0, 1, 2]},
            {"lens": [0, 1, 2, 3], "counts": [0, 1, 2, 3]}]


def jobs(tier):
    types, cls = corpus.classes("roundtrip")
    js = []
    for c in cls:
        cfg = {"lens": [0, 1], "counts": [0, 1, 2]} if tier == "quick" else corpus.choose_cfg(types, c["instrs"], THOROUGH, 6000)
        js.append(dict(name=f"roundtrip[{c['name']},lens={cfg['lens'][-1]},counts={cfg['counts'][-1]}]", fn="roundtrip",
                       args=[corpus.closure(types, c["instrs"]), c, cfg], tree="core", collect_models=2,
                       expect=["deserializer consumes exactly the bytes written"]))
    return js
