from . import corpus
ID = "C01"
LEVEL = "model_checking"
HARNESS = "harness/c01_roundtrip.py"
MODE = "corpus"
EXPLANATION = ("For every round-trip class of the spec corpus the repository's own generator output is executed symbolically together with the real EoWriter/EoReader: "
               "structure (string lengths, array counts, optional presence, case selection) is value-forked, all leaf values are solver variables over their whole range.")
BOUNDS = {"quick": "corpus: every wire-unambiguous class of corpus/core plus the units of a VERIF_SEED-chosen sample of the generated pair corpus that the static classifier props/unambiguous.py accepts; strings of length 0..2 where the class has at most 400 structures (else 0..1; fixed-length ones at their length), arrays of 0, 1 or 2 elements (fixed at their length); integers/ordinals/code points over their full range; additionally: 3..5 elements where counts are inferred from remaining bytes, strings / arrays of 252 (255 for byte-counted) symbolic elements for the length-bound classes, selected classes generated in isolated mini trees (counts 0..4), a second object of the class after a first went through the whole cycle",
          "thorough": "core corpus plus ALL units of the generated pair corpus (pairs and triples) that the classifier accepts (about 60 %); per class the richest of (lens<=1,counts<=2) (lens<=2,counts<=2) (lens<=3,counts<=2) (lens<=3,counts<=3) whose structure count stays <= 6000 (the choice is in each job name); the same additional job families as quick (3..8 inferred elements, second objects for classes up to 40 structures)"}
OUTSIDE = "specifications not in the corpus; longer strings and arrays; wire-ambiguous specs (C01's own quantifier excludes them)"
ASSUMPTIONS = ["validity predicate of C01: cp1252-encodable strings, no y-diaeresis where sanitised or padded, no '~' in encoded strings, present optionals serialize to at least one byte, "
               "elements of unbounded delimited arrays begin with a non-empty first chunk (otherwise indistinguishable from end of data)"]


MINI = [("TailMixedWidths",), ("TailFlagPairs",), ("TailPaddedPairs",), ("MixedWidths",), ("CountedItems",), ("ChunkedParent",), ("OptionalBound",)]


def trees(tier):
    return ([("core", corpus.CORE), ("pairs", corpus.pairs(tier, corpus.seed())[0])]
            + [("mini:" + "+".join(m), corpus.mini(m)[0]) for m in MINI])


def programs(tier):
    return len(corpus.classes("roundtrip")[1]) + len(pair_units(tier))


def pair_units(tier):
    from .unambiguous import unambiguous
    _, ptypes, pcls = corpus.pairs(tier, corpus.seed())
    return [c for c in pcls if unambiguous(ptypes, c["instrs"], c["entry"])]


THRESH = int(__import__("os").environ.get("VERIF_THRESH", "252"))
THOROUGH = [{"lens": [0, 1], "counts": [0, 1, 2]}, {"lens": [0, 1, 2], "counts": [0, 1, 2]}, {"lens": [0, 1, 2, 3], "counts": [0, 1, 2]},
            {"lens": [0, 1, 2, 3], "counts": [0, 1, 2, 3]}]


def jobs(tier):
    types, cls = corpus.classes("roundtrip")
    js = []
    for c in cls:
        cfg = corpus.choose_cfg(types, c["instrs"], THOROUGH[:2], 400) if tier == "quick" else corpus.choose_cfg(types, c["instrs"], THOROUGH, 6000)
        js.append(dict(name=f"roundtrip[{c['name']},lens={cfg['lens'][-1]},counts={cfg['counts'][-1]}]", fn="roundtrip",
                       args=[corpus.closure(types, c["instrs"]), c, cfg], tree="core", collect_models=2,
                       expect=["deserializer consumes exactly the bytes written"]))
    # element counts inferred from the remaining bytes (unbounded arrays of fixed-size structs): a wrong element size only
    # shows from three elements on (n*real // assumed == n for small n)
    def has_tail_struct_array(instrs):
        return any((i[0] == "array" and i[3] is None and i[2][0] == "struct") or (i[0] == "chunked" and has_tail_struct_array(i[1])) for i in instrs)
    for c in cls:
        if has_tail_struct_array(c["instrs"]):
            cfg = {"lens": [0, 1], "counts": [3, 4, 5] if tier == "quick" else [3, 4, 5, 6, 7, 8]}
            js.append(dict(name=f"roundtrip[{c['name']},counts=3..{cfg['counts'][-1]}]", fn="roundtrip", args=[corpus.closure(types, c["instrs"]), c, cfg],
                           tree="core", collect_models=1, expect=["deserializer consumes exactly the bytes written"]))
    # a second object of the class after a first one went through the whole cycle (class-level state in generated code)
    small = {"lens": [0, 1], "counts": [0, 1]}
    for c in cls:
        if corpus.structures(types, c["instrs"], small) <= (12 if tier == "quick" else 40):
            js.append(dict(name=f"second_object[{c['name']}]", fn="second_object", args=[corpus.closure(types, c["instrs"]), c, small],
                           tree="core", collect_models=1, expect=["second object: deserializer consumes exactly the bytes written"]))
    # the same classes generated in isolation (a tree of their own): order effects inside the generator
    for m in MINI:
        _, mtypes, mcls = corpus.mini(m)
        for c in mcls:
            cfg = {"lens": [0, 1], "counts": [0, 1, 2, 3, 4]}
            js.append(dict(name=f"roundtrip[mini:{c['name']}]", fn="roundtrip", args=[corpus.closure(mtypes, c["instrs"]), c, cfg],
                           tree="mini:" + "+".join(m), collect_models=1, expect=["deserializer consumes exactly the bytes written"]))
    # size thresholds: the largest string / array a one-byte length field can announce (252), all characters symbolic
    for c in cls:
        if c["name"] in ("Named", "LengthBytes", "OptionalBound", "ByteCounted") or (tier != "quick" and c["name"] in ("CountedItems", "ArrayZoo")):
            top = 255 if c["name"] == "ByteCounted" else THRESH          # a raw byte counts to 255, an EO char to 252
            cfg = {"lens": [top], "counts": [top]}
            js.append(dict(name=f"roundtrip[{c['name']},lens={top},counts={top}]", fn="roundtrip", args=[corpus.closure(types, c["instrs"]), c, cfg],
                           tree="core", collect_models=1, expect=["deserializer consumes exactly the bytes written"]))
    # units of the generated pair corpus that a conservative static classifier (props/unambiguous.py) accepts as
    # wire-unambiguous in the sense of C01's quantifier
    _, ptypes, _ = corpus.pairs(tier, corpus.seed())
    pcfg = {"lens": [0, 1], "counts": [0, 1, 2]} if tier == "quick" else {"lens": [0, 1, 2], "counts": [0, 1, 2]}
    for c in pair_units(tier):
        js.append(dict(name=f"roundtrip[pairs:{c['name']}]", fn="roundtrip", args=[corpus.closure(ptypes, c["instrs"]), c, pcfg], tree="pairs",
                       collect_models=1, expect=["deserializer consumes exactly the bytes written"]))
    return js
