from . import corpus, paircorpus, twins
ID = "C02"
LEVEL = "translation_validation"
HARNESS = "harness/c02_wire.py"
MODE = "corpus"
EXPLANATION = ("Per corpus program: the output of the repository's generator is executed symbolically (with the real EoWriter) and compared by z3 with an independent reading "
               "of the same XML (O-xml: own ElementTree parse with proper xs:boolean, own reference wire images), for all objects within the value bounds. The same expectation is "
               "checked against code generated from five twin trees that spell one boolean attribute's default explicitly.")
BOUNDS = {"quick": "programs: every class of corpus/core plus a VERIF_SEED-chosen sample of 160 instruction pairs (and all 150 singles) of the generated pair corpus (plus 60 structs in the alternative file layout B), core generated from the core tree and from 5 explicit-default twin trees; strings of length 0 or 1 (any code point 0..0x10FFFF), arrays of 0, 1 or 2 elements, "
                   "integers / enum ordinals over their whole wire range",
          "thorough": "core corpus with, per class, the richest of (lens<=1,counts<=2) (lens<=2,counts<=2) (lens<=3,counts<=2) (lens<=3,counts<=3) whose structure count stays <= 4000 (<= 800 on the twin trees), plus " + paircorpus.size_text() + " in file layout A and again in layout B (structs in the root file, their types defined in a later-walked file); string lengths {0,1,2,3}, array counts {0,1,2,3}"}
OUTSIDE = "specifications not in the corpus; longer strings/arrays; objects violating their declaration (C16)"
ASSUMPTIONS = ["O-xml (props/oxml.py + harness/vh_refsem.py) is the reading of the eo-protocol semantics",
               "a switch value that matches no case and has no default imposes nothing on case data; wire lengths below zero are assumed away"]
_twin_dirs = {}


def trees(tier):
    out = [("core", corpus.CORE), ("pairs", corpus.pairs(tier, corpus.seed())[0]),
           ("pairsB", corpus.pairs(tier, corpus.seed() + 1, 60 if tier == "quick" else None, False, "B")[0])]
    for name in twins.TWINS:
        d, n = twins.make(corpus.CORE, name)
        _twin_dirs[name] = d
        out.append((name, d))
    from .c01 import MINI
    out += [("mini:" + "+".join(m), corpus.mini(m)[0]) for m in MINI]
    return out


def programs(tier):
    return len(corpus.classes()[1]) * (1 + len(twins.TWINS)) + len(corpus.pairs(tier, corpus.seed())[2])


def on_generator_failure(run, name, xml_dir, msg):
    """A twin that only spells defaults explicitly must be accepted exactly like the core tree."""
    if name == "core" or name.startswith("mini:") or name.startswith("pairs"):
        return False
    lines = [l for l in msg.strip().splitlines() if l.startswith("GENERATOR-FAILED")] or msg.strip().splitlines()
    err = lines[-1] if lines else "generator failed"
    v = {"kind": "generator", "label": f"generator rejects the twin tree '{name}' (explicit boolean default changes behaviour)",
         "inputs": {"twin": name, "error": err[-300:]}}
    run.violations.append((f"generate[{name}]", v, {"fn": "<generator>", "args": [name]}, {"status": "generator", "message": err[-300:]}))
    return True


def jobs(tier):
    types, cls = corpus.classes()
    from .c01 import THOROUGH
    js = []
    for tree in ["core"] + list(twins.TWINS):
        for c in cls:
            cfg = (corpus.choose_cfg(types, c["instrs"], THOROUGH[:2], 300) if tree == "core" else {"lens": [0, 1], "counts": [0, 1, 2]}) if tier == "quick" \
                else corpus.choose_cfg(types, c["instrs"], THOROUGH, 4000 if tree == "core" else 800)
            js.append(dict(name=f"wire[{tree}:{c['name']}]", fn="wire", args=[corpus.closure(types, c["instrs"]), c, cfg], tree=tree, collect_models=(2 if tree == "core" else 1),
                           expect=["serialized length equals the prescribed length"]))
    _, ptypes, pcls = corpus.pairs(tier, corpus.seed())
    pcfg = {"lens": [0, 1], "counts": [0, 1, 2]} if tier == "quick" else {"lens": [0, 1, 2], "counts": [0, 1, 2]}
    for c in pcls:
        js.append(dict(name=f"wire[pairs:{c['name']}]", fn="wire", args=[corpus.closure(ptypes, c["instrs"]), c, pcfg], tree="pairs", collect_models=1,
                       expect=["serialized length equals the prescribed length"]))
    # array arguments as one-shot iterators (core classes that have arrays)
    def has_array(instrs):
        return any(i[0] == "array" or (i[0] == "chunked" and has_array(i[1])) or (i[0] == "switch" and any(has_array(c[3]) for c in i[2])) for i in instrs)
    for c in cls:
        if has_array(c["instrs"]):
            js.append(dict(name=f"wire_iter[core:{c['name']}]", fn="wire_iter", args=[corpus.closure(types, c["instrs"]), c, {"lens": [0, 1], "counts": [0, 1, 2]}],
                           tree="core", collect_models=1, expect=["serialized length equals the prescribed length"]))
    # core classes generated in isolation (a tree of their own): order effects inside the generator
    from .c01 import MINI
    for m in MINI:
        _, mtypes, mcls = corpus.mini(m)
        for c in mcls:
            js.append(dict(name=f"wire[mini:{c['name']}]", fn="wire", args=[corpus.closure(mtypes, c["instrs"]), c, {"lens": [0, 1], "counts": [0, 1, 2, 3]}],
                           tree="mini:" + "+".join(m), collect_models=1, expect=["serialized length equals the prescribed length"]))
    # the same generated structs in the other file layout (structs in the root file, every type they use defined in a later-walked file)
    _, btypes, bcls = corpus.pairs(tier, corpus.seed() + 1, 60 if tier == "quick" else None, False, "B")
    for c in bcls:
        js.append(dict(name=f"wire[pairsB:{c['name']}]", fn="wire", args=[corpus.closure(btypes, c["instrs"]), c, {"lens": [0, 1], "counts": [0, 1]}], tree="pairsB",
                       collect_models=1, expect=["serialized length equals the prescribed length"]))
    return js
