ID = "C13"
LEVEL = "model_checking"
HARNESS = "harness/c13_sequencer.py"
MODE = "src"
CROSSHAIR = ["crosshair/c13_contracts.py"]       # second engine, thorough tier
EXPLANATION = ("Inductive step from the state after an arbitrary number n of requests (n symbolic, unbounded) plus a periodicity lemma (ten requests restore the state, "
               "checked observationally), plus bounded model checking of every operation string through the public API with symbolic start values.")
BOUNDS = {"quick": "inductive step: any n >= 0, any start values; BMC: all 2^d op strings over {next, set(v)} for every depth d <= 6 with symbolic v; long runs of 300 and 1,100 requests (with and without periodic updates); requests that fail in the middle",
          "thorough": "long runs of 70,000 requests (beyond 8- and 16-bit counter widths), with and without periodic start updates; inductive step as quick; BMC for every depth d <= 12 (4096 op strings at depth 12, start values symbolic)"}
OUTSIDE = "the inductive argument assumes nothing; histories beyond the BMC depth are covered only by the inductive step + periodicity lemma"
ASSUMPTIONS = []


def jobs(tier):
    return [dict(j, second_solver=(10 if tier == "thorough" else 0)) for j in _jobs(tier)]


def _jobs(tier):
    dmax = 6 if tier == "quick" else 12
    js = [dict(name="constructor", fn="constructor", args=[], collect_models=1),
          dict(name="step", fn="step", args=[], collect_models=3, expect=["n-th sequence == start + n mod 10", "update keeps the counter"]),
          dict(name="wrap", fn="wrap", args=[], collect_models=2, expect=["state after r+10 requests == state after r requests"]),
          dict(name="start_kinds", fn="start_kinds", args=[], collect_models=1),
          dict(name="failed_request", fn="failed_request", args=[], collect_models=2, expect=["failed requests do not advance the counter"])]
    # long runs: the inductive step argues from observational equivalence after ten requests; a hidden counter that only
    # wraps at a machine width (seed C13j: & 0xFF) needs the run itself
    for n, upd in ([(300, 0), (300, 7), (1100, 0)] if tier == "quick" else [(300, 0), (300, 7), (1100, 0), (1100, 13), (70000, 0), (70000, 1000)]):
        js.append(dict(name=f"long_run[{n},update every {upd}]", fn="long_run", args=[n, upd], collect_models=1,
                       expect=["request 0 of a long run == start in force + n mod 10"]))
    for d in range(1, dmax + 1):
        js.append(dict(name=f"history[{d}]", fn="history", args=[d], collect_models=2, expect=["final request"],
                       split_at=(64 if d >= 9 else None)))
    return js
