ID = "C10"
LEVEL = "model_checking"
HARNESS = "harness/c10_encrypt.py"
MODE = "src"
EXPLANATION = ("Per length L all 256^L byte strings are symbolic; swap_multiples' multiple is an unbounded symbolic integer >= 1 "
               "(x mod m with symbolic m goes to z3 as non-linear integer arithmetic); its data-dependent branches are forked, everything else is merged.")
BOUNDS = {"quick": "interleave/deinterleave/flip_msb: every byte string of length 0..24 (position-permutation obligations up to 10); "
                   "swap_multiples: every byte string of length 0..6 x every multiple >= 1; pipelines (concrete multiples 3 and 7) up to length 5; every primitive again after earlier calls of all four",
          "thorough": "interleave/deinterleave/flip_msb: every length 0..64 (permutation obligations up to 16); swap_multiples: length 0..9 x every multiple >= 1; pipelines (multiples 1,2,3,5,6,7,10,13) up to 8"}
OUTSIDE = "longer data"
ASSUMPTIONS = ["bit operations on non-negative ints encoded exactly over the integers (x & m as a sum of mod-2^k differences)"]


def jobs(tier):
    q = tier == "quick"
    js = []
    for L in range(0, (24 if q else 64) + 1):
        js.append(dict(name=f"inter_inverse[{L}]", fn="inter_inverse", args=[L], collect_models=1, expect=["deinterleave(interleave(x)) == x", "interleave(deinterleave(x)) == x"]))
        js.append(dict(name=f"inter_expected[{L}]", fn="inter_expected", args=[L], collect_models=1))
        js.append(dict(name=f"flip[{L}]", fn="flip", args=[L], collect_models=1, expect=["flip_msb is an involution"]))
    for L in range(1, (10 if q else 16) + 1):
        js.append(dict(name=f"inter_permutation[{L}]", fn="inter_permutation", args=[L], collect_models=1))
    for L in range(0, (6 if q else 9) + 1):
        js.append(dict(name=f"swap[{L}]", fn="swap", args=[L], collect_models=2, expect=["swap_multiples is an involution", "multiset of bytes preserved"]))
        js.append(dict(name=f"swap_runs[{L}]", fn="swap_runs", args=[L], collect_models=2))
    for L in range(0, (6 if q else 9) + 1):
        js.append(dict(name=f"swap_zero_negative[{L}]", fn="swap_zero_negative", args=[L], collect_models=1, expect=["negative multiple rejected"]))
    for L in range(0, (5 if q else 8) + 1):
        for m in ((3, 7) if q else (1, 2, 3, 5, 6, 7, 10, 13)):
            for order in (0, 1):
                js.append(dict(name=f"pipeline[{L},m={m},order={order}]", fn="pipeline", args=[L, m, order], collect_models=1, expect=["decrypt(encrypt(x)) == x"]))
    for L in ((0, 1, 3, 4, 7) if q else range(0, 13)):
        js.append(dict(name=f"through_memoryview[{L}]", fn="through_memoryview", args=[L, 3], collect_models=1,
                       expect=["through a memoryview: same result as on the bytearray (primitive 3)"]))
    for L0, L, m in (((2, 2, 3), (3, 4, 7)) if q else [(a, b, m) for a in (1, 2, 3) for b in (1, 2, 3, 4) for m in (3, 7)]):
        js.append(dict(name=f"after_earlier_calls[{L0},{L},m={m}]", fn="after_earlier_calls", args=[L0, L, m], collect_models=1,
                       expect=["after earlier calls: swap_multiples is an involution"]))
    return js
