import itertools
ID = "C04"
LEVEL = "model_checking"
HARNESS = "harness/c04_roundtrip.py"
MODE = "src"
EXPLANATION = ("Write-op kinds are enumerated (12 kinds), all values are symbolic: integers over their full range, strings over all code points 0..0x10FFFF of the stated length, "
               "raw bytes arbitrary. Every single op, every ordered pair (and triple in the thorough tier) is written with the real EoWriter and read back with the real EoReader.")
BOUNDS = {"quick": "all single ops and ordered pairs of the 12 kinds (trailing kinds last); strings/bytes of length 0..3; padding room 0..2, plus 255/256/300 for padded strings followed by another field; the caller's own bytearray as raw-bytes argument (mutated and re-written after the write); long strings of 66 and 130 symbolic characters for the four non-padded string kinds",
          "thorough": "singles, pairs and triples; strings/bytes of length 0..5 for singles, 0..3 in pairs, 2 in triples; padding room 0..2; long strings of 33..260 symbolic characters"}
OUTSIDE = "longer sequences (covered compositionally: C09 shows writes are append-only, C05 shows reads start at the current position); longer strings"
ASSUMPTIONS = ["excluded as in the property: y-diaeresis (image 0xFF) inside padded strings, '~' inside encoded strings"]
FIXED = ("byte", "char", "short", "three", "int", "bytes", "fixed_string", "padded_string", "fixed_encoded_string", "padded_encoded_string")
TRAILING = ("string", "encoded_string")
KINDS = FIXED + TRAILING


def seqs(n):
    for pre in itertools.product(FIXED, repeat=n - 1):
        for last in KINDS:
            yield pre + (last,)


def uses_len(kinds):
    return any(k not in ("byte", "char", "short", "three", "int") for k in kinds)


def jobs(tier):
    q = tier == "quick"
    js = []
    def add(kinds, L, extra):
        js.append(dict(name=f"seq[{'+'.join(kinds)},L={L},x={extra}]", fn="sequence", args=[list(kinds), L, extra], collect_models=1,
                       expect=["output consumed exactly"]))
    for kinds in seqs(1):
        Ls = range(0, (3 if q else 5) + 1) if uses_len(kinds) else (0,)
        for L in Ls:
            for extra in ((0, 1, 2) if any("padded" in k for k in kinds) else (0,)):
                add(kinds, L, extra)
    # padded strings followed by another field, with padding across the one-byte boundary
    for k in ("padded_string", "padded_encoded_string"):
        for extra in (255, 256, 300):
            add((k, "char"), 1, extra)
            add((k, "string"), 2, extra)
    for kinds in seqs(2):
        Ls = ((0, 2) if q else (0, 1, 2, 3)) if uses_len(kinds) else (0,)
        for L in Ls:
            for extra in ((0, 1) if any("padded" in k for k in kinds) else (0,)):
                add(kinds, L, extra)
    # the caller's own bytearray as raw-bytes argument (first write, later write, written twice)
    for kinds in (("bytearray",), ("bytearray", "short"), ("char", "bytearray"), ("bytearray", "bytearray"), ("bytearray", "short", "bytearray"),
                  ("bytearray", "string"), ("bytes", "bytearray")):
        for L in ((0, 2) if q else (0, 1, 2, 3)):
            add(kinds, L, 0)
    # size thresholds: long strings of every string kind (all characters symbolic), followed by another field
    for L in ((66, 130) if q else (33, 66, 130, 260)):
        for k in ("string", "encoded_string", "fixed_string", "fixed_encoded_string"):
            # (padded kinds stay at small lengths: the position of the first 0xFF couples all characters)
            if k in ("string", "encoded_string"):
                add(("char", k), L, 0)          # unbounded kinds end the data
            else:
                add((k, "short"), L, 0)
    if not q:
        for kinds in seqs(3):
            add(kinds, 2 if uses_len(kinds) else 0, 1 if any("padded" in k for k in kinds) else 0)
    return js
