from . import corpus
ID = "C16"
LEVEL = "model_checking"
HARNESS = "harness/c16_invalid.py"
MODE = "corpus"
EXPLANATION = ("For every corpus class a valid symbolic object is generated and exactly one declaration-violating change is applied at a value-forked site (any field, any nesting depth, "
               "any array element, any case): required field None, wrong fixed length, over padded/length-field limit, integer at or above its limit (symbolic, unbounded above), wrong case data. "
               "z3 decides that the generated serializer cannot return normally.")
BOUNDS = {"quick": "every class of corpus/core (plus a VERIF_SEED-chosen sample of 80 pairs + all singles of the generated pair corpus) x every violation site reachable with strings of length 0/1 and arrays of 0/1 elements (fixed ones at their length +-1); over-limit integers: every v >= limit",
          "thorough": "core corpus (per class the richest of lens/counts <=1, counts<=2, lens&counts<=2 whose structure count stays <= 300) plus ALL structs of the generated pair corpus (lens/counts 0/1)"}
OUTSIDE = "specifications not in the corpus; objects with two or more simultaneous violations; None for fields whose constructor already rejects None (arrays, strings feeding a length field)"
ASSUMPTIONS = ["only the violation kinds listed in the property are in scope"]


def trees(tier):
    return [("core", corpus.CORE), ("pairs", corpus.pairs(tier, corpus.seed(), 80 if tier == "quick" else None)[0])]


def programs(tier):
    return len(corpus.classes()[1])


def count_sites(types, instrs, mult):
    n = 0
    for ins in instrs:
        if ins[0] == "field" and ins[1] is not None and ins[6] is None:
            n += 2
            if ins[2][0] == "struct":
                n += count_sites(types, types[ins[2][1]][1], mult)
        elif ins[0] == "array":
            n += 1 + mult * (2 + (count_sites(types, types[ins[2][1]][1], mult) if ins[2][0] == "struct" else 0))
        elif ins[0] == "chunked":
            n += count_sites(types, ins[1], mult)
        elif ins[0] == "switch":
            n += 1 + max([count_sites(types, c[3], mult) for c in ins[2]] + [0])
    return n


# classes whose declaration offers no in-scope violation site (only unbounded / length-prefixed text under a 252 limit)
NO_SITES = ("Named", "RangeReplyServerPacket", "TalkRequestClientPacket", "CaseWithChunk.CodeData2", "DirectNestedChunk")


def jobs(tier):
    types, cls = corpus.classes()
    cfg = {"lens": [0, 1], "counts": [0, 1]} if tier == "quick" else {"lens": [0, 1, 2], "counts": [0, 1, 2]}
    CANDS = [{"lens": [0, 1], "counts": [0, 1]}, {"lens": [0, 1], "counts": [0, 1, 2]}, {"lens": [0, 1, 2], "counts": [0, 1, 2]}]
    mult = max(cfg["counts"]) + 1
    js = []
    for c in cls:
        sites = count_sites(types, c["instrs"], mult)
        if sites == 0 or c["name"] in NO_SITES:
            continue
        ccfg = cfg if tier == "quick" else corpus.choose_cfg(types, c["instrs"], [{"lens": [0, 1], "counts": [0, 1]}, {"lens": [0, 1], "counts": [0, 1, 2]}, {"lens": [0, 1, 2], "counts": [0, 1, 2]}], 300)
        sites = count_sites(types, c["instrs"], max(ccfg["counts"]) + 1)
        js.append(dict(name=f"refused[{c['name']}]", fn="refused", args=[corpus.closure(types, c["instrs"]), c, ccfg, sites + 2], tree="core", collect_models=2,
                       may_be_empty=False, expect=["an object violating its declaration is refused (SerializationError / ValueError)"]))
    _, ptypes, pcls = corpus.pairs(tier, corpus.seed(), 80 if tier == "quick" else None)
    for c in pcls:
        sites = count_sites(ptypes, c["instrs"], mult)
        if sites == 0:
            continue
        # generated pair structs: some offer no violation site -> may be empty; vacuity is guarded by the core corpus jobs
        pcfg = {"lens": [0, 1], "counts": [0, 1]}
        sites = count_sites(ptypes, c["instrs"], 2)
        js.append(dict(name=f"refused[pairs:{c['name']}]", fn="refused", args=[corpus.closure(ptypes, c["instrs"]), c, pcfg, sites + 2], tree="pairs", collect_models=1,
                       may_be_empty=True))
    return js
