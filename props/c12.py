ID = "C12"
LEVEL = "model_checking"
HARNESS = "harness/c12_seqstart.py"
MODE = "src"
EXHAUSTIVE = True      # the whole finite input space is one symbolic query family (decided, not enumerated)
EXPLANATION = "The whole outcome space of every random draw is symbolic (one solver variable per randrange call, constrained by its contract)."
BOUNDS = {"quick": "every outcome of every random draw of the three generate() functions (57,751 + 442,764 + 240 outcomes, all at once); a second generation after each kind was generated once (7 draws symbolic)",
          "thorough": "same (the space is finite and fully symbolic)"}
OUTSIDE = "random sources that violate randrange's documented contract"
ASSUMPTIONS = []
FP_RANGE = (-4096, 4096)


def jobs(tier):
    return [dict(j, second_solver=(20 if tier == "thorough" else 0)) for j in _jobs(tier)]


def _jobs(tier):
    return [dict(name="init", fn="init_start", args=[], collect_models=4, fp_range=FP_RANGE, expect=["INIT from_init_values reproduces the value"]),
            dict(name="ping", fn="ping_start", args=[], collect_models=4, fp_range=FP_RANGE, expect=["PING from_ping_values reproduces the value"]),
            dict(name="account_reply", fn="account_reply_start", args=[], collect_models=3, fp_range=FP_RANGE),
            dict(name="zero", fn="zero_start", args=[], collect_models=1, fp_range=FP_RANGE),
            dict(name="from_values", fn="from_values_total", args=[], collect_models=2, fp_range=FP_RANGE),
            dict(name="second_generation", fn="second_generation", args=[], collect_models=1, fp_range=FP_RANGE,
                 expect=["second INIT from_init_values reproduces the value"])]
