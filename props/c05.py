import itertools
ID = "C05"
LEVEL = "model_checking"
HARNESS = "harness/c05_reader.py"
MODE = "src"
EXPLANATION = ("Blind variants repeat steps and histories without observing the reader in between (observation may repair lazily kept state). (a) one operation from every reachable reader state (canonical public-API prefix with symbolic parameters) compared with an independent functional "
               "model over symbolic data; (b) bounded model checking of whole operation sequences from the constructor. Data bytes are symbolic, so every placement of 0xFF breaks is covered.")
OPS = ("get_byte", "get_bytes", "get_char", "get_short", "get_three", "get_int", "get_string", "get_fixed_string",
       "get_fixed_string_padded", "get_encoded_string", "get_fixed_encoded_string", "get_fixed_encoded_string_padded",
       "mode_on", "mode_off", "next_chunk", "slice", "slice_default", "remaining", "get_bytes_zero")
HOPS = ("get_byte", "get_short", "get_bytes", "get_string", "get_fixed_string_padded", "get_encoded_string", "mode_on", "mode_off", "next_chunk", "slice")
BOUNDS = {"quick": "step: every byte string of length 0..3 x every reachable state x each of 19 operations with arguments 0..n+2; histories (observed and blind): all sequences of length <= 2 over 10 operation kinds, data length 2; bytearray / memoryview containers (n=2); long chunks with every byte symbolic: 72, 136, 264, 520 bytes",
          "thorough": "step: every byte string of length 0..4; histories (observed and blind): all sequences of length <= 3 over 10 operation kinds, data length 3; containers n=1..3; long chunks up to 1,030 bytes"}
OUTSIDE = "data longer than the bound; negative arguments (excluded by the property, only their ValueError is checked); mutation of a caller-owned buffer behind the memoryview"
ASSUMPTIONS = ["every reachable reader state is reached by the canonical prefix [chunked on; k x next_chunk; chunked off; get_bytes(j); set mode] (argued in DESIGN.md section 7 C05)"]


def jobs(tier):
    q = tier == "quick"
    js = []
    for n in range(0, (3 if q else 4) + 1):
        for op in OPS:
            if q and n >= 4 and op in ("slice", "slice_default"):
                continue       # the slice obligations (slice driven in chunked mode, slice of slice) are the heaviest: n <= 3 in the quick tier
            js.append(dict(name=f"step[n={n},{op}]", fn="step", args=[n, op], collect_models=1, max_violations=1,
                           expect=["post-state: position equals the model's"], split_at=(48 if n >= 5 else None)))
        js.append(dict(name=f"negative[n={n}]", fn="negative_arguments", args=[n], collect_models=1))
        for op in ("next_chunk", "get_byte", "get_string", "get_short", "slice_default", "mode_off"):
            js.append(dict(name=f"step-blind[n={n},{op}]", fn="step", args=[n, op, True], collect_models=1,
                           expect=["post-state: position equals the model's"]))
    # the other documented container kinds of the constructor argument
    for kind in ("bytearray", "memoryview"):
        for n in ((2,) if q else (1, 2, 3)):
            for op in OPS:
                js.append(dict(name=f"step-{kind}[n={n},{op}]", fn="step", args=[n, op, False, kind], collect_models=1, max_violations=1,
                               expect=["post-state: position equals the model's"]))
    # size thresholds (seed C06h: a widening-window scan that skips offsets 64..127): long chunks, all bytes symbolic
    for n, lo in ([(72, 60), (136, 120), (264, 250), (520, 506)] if q else [(40, 0), (72, 0), (72, 60), (136, 60), (136, 120), (200, 120), (264, 250), (400, 380), (520, 500), (1030, 1020)]):
        js.append(dict(name=f"long[n={n},first break>={lo}]", fn="long_chunks", args=[n, lo], collect_models=1,
                       expect=["long: second chunk: position equals the model's"]))
    hn, depth = (2, 2) if q else (3, 3)
    for d in range(1, depth + 1):
        for ops in itertools.product(HOPS, repeat=d):
            js.append(dict(name=f"history[n={hn},{'+'.join(ops)}]", fn="history", args=[hn, list(ops)], collect_models=1))
            if d >= 2:
                js.append(dict(name=f"history-blind[n={hn},{'+'.join(ops)}]", fn="history", args=[hn, list(ops), True], collect_models=1))
    return js
