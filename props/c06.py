import itertools
ID = "C06"
LEVEL = "model_checking"
HARNESS = "harness/c06_chunks.py"
MODE = "src"
EXPLANATION = ("Chunk shapes are enumerated, field values are symbolic (integers over their full range, strings over all code points), and the read plan of every chunk but the last "
               "(prefix length, number of surplus reads) is symbolic and value-forked. Real EoWriter (sanitising) and real EoReader (chunked).")
NONTRAIL = ("char", "short", "three", "int", "fixed_string", "fixed_encoded_string")
TRAIL = ("string", "encoded_string")
BOUNDS = {"quick": "3 chunks over a 4-shape basis with every read plan for the first two (incl. skipping a middle chunk untouched); 2 chunks: first chunk any shape of <= 2 fields over 8 kinds (unbounded strings last) with every read plan (prefix 0..n, surplus 0..2), second chunk one of 5 probe shapes; strings of 2 code points; later chunks read through a slice; an unsanitised header ahead of the chunks; long chunks (strings of 66 and 130 symbolic characters)",
          "thorough": "quick plus string lengths 0..3 and all 3-chunk combinations over a 9-shape basis with every read plan; long chunks with strings of 33..260 characters"}
OUTSIDE = "more chunks / more fields per chunk / longer strings; sanitisation off (then 0xFF may appear in strings, outside the property's premise)"
ASSUMPTIONS = ["'~' excluded from encoded strings (the format cannot carry it: C08)"]
SURPLUS = ("char", "string")
PROBES = (("char", "string"), ("short", "fixed_string"), ("int",), ("encoded_string",), ())


def shapes(maxf):
    out = [()]
    for n in range(1, maxf + 1):
        for pre in itertools.product(NONTRAIL, repeat=n - 1):
            for last in NONTRAIL + TRAIL:
                out.append(pre + (last,))
    return out


def jobs(tier):
    q = tier == "quick"
    js = [dict(name="lemma_numbers", fn="lemma_numbers", args=[], collect_models=1)]
    for k in NONTRAIL[4:] + TRAIL:
        for L in range(0, 4 if q else 6):
            js.append(dict(name=f"lemma_strings[{k},{L}]", fn="lemma_strings", args=[k, L], collect_models=1))
    for L in ((2,) if q else (0, 1, 2, 3)):
        for a in shapes(2):
            for b in PROBES:
                js.append(dict(name=f"chunks[{'+'.join(a)}|{'+'.join(b)},L={L}]", fn="chunks", args=[[list(a), list(b)], L, list(SURPLUS)],
                               collect_models=1, expect=["last chunk consumed exactly"]))
    # later chunks read through a slice taken after the first chunk (under-, exact or over-read)
    for a in ([("char",), ("short", "string"), ("fixed_string",)] if q else [("char",), ("short", "string"), ("fixed_string",), (), ("int", "encoded_string")]):
        for b in ([("short", "string")] if q else [("short", "string"), ("char",), ("encoded_string",)]):
            js.append(dict(name=f"sliced[{'+'.join(a)}|{'+'.join(b)}|int]", fn="chunks", args=[[list(a), list(b), ["int"]], 2, list(SURPLUS), True],
                           collect_models=1, expect=["last chunk consumed exactly"]))
    # an unsanitised header ahead of the chunks (its text may coincide with a chunk's string)
    for a in ([("char", "string"), ("string",)] if q else [("char", "string"), ("string",), ("short", "encoded_string"), ("fixed_string", "string")]):
        for L in ((1, 2) if q else (0, 1, 2, 3)):
            js.append(dict(name=f"header[{'+'.join(a)}|short+string|int,L={L}]", fn="chunks", args=[[list(a), ["short", "string"], ["int"]], L, list(SURPLUS), False, True],
                           collect_models=1, expect=["last chunk consumed exactly"]))
    # size thresholds: a chunk that ends far from where it starts (seed C06h: a break scan that works in widening windows)
    for L in ((66, 130, 260) if q else (33, 66, 100, 130, 200, 260, 300)):
        js.append(dict(name=f"long[char+string|short+string|int,L={L}]", fn="chunks", args=[[["char", "string"], ["short", "string"], ["int"]], L, list(SURPLUS)],
                       collect_models=1, expect=["last chunk consumed exactly"]))
    if q:
        small = [("char",), ("short", "string"), ("fixed_string",), ()]
        for a in small:
            for b in small:
                for c in PROBES[:2]:
                    js.append(dict(name=f"chunks3[{'+'.join(a)}|{'+'.join(b)}|{'+'.join(c)}]", fn="chunks", args=[[list(a), list(b), list(c)], 2, list(SURPLUS)],
                                   collect_models=1, expect=["last chunk consumed exactly"]))
    if not q:
        basis = [(), ("char",), ("int", "string"), ("short", "fixed_string"), ("encoded_string",), ("three", "char"),
                 ("fixed_encoded_string", "string"), ("string",), ("char", "encoded_string")]
        for a in basis:
            for b in basis:
                for c in PROBES[:3]:
                    js.append(dict(name=f"chunks3[{'+'.join(a)}|{'+'.join(b)}|{'+'.join(c)}]", fn="chunks", args=[[list(a), list(b), list(c)], 2, list(SURPLUS)],
                                   collect_models=1, expect=["last chunk consumed exactly"]))
    return js
