ID = "C09"
LEVEL = "model_checking"
HARNESS = "harness/c09_writer.py"
MODE = "src"
EXPLANATION = ("Inductive step over an arbitrary writer pre-state (symbolic prefix bytes, symbolic sanitisation mode): one add_* call with symbolic arguments; integers are unbounded "
               "symbolic (in range, at the limit, far beyond), strings are arbitrary code points 0..0x10FFFF, length/padded arguments symbolic. The writer is append-only, which the "
               "'earlier content untouched' obligation checks, so one step covers histories of any length.")
BOUNDS = {"quick": "prefix 0..2 bytes; integers: every v >= 0; strings: every string of 0..4 code points, length argument 0..len+3 and len+254..len+258 (padding across the 255/256 boundary), both padded values, both modes; the same steps on a writer with a past (padded / plain / numeric / rejected writes, a mode toggle); writers already holding 300 bytes; strings of 66 and 130 symbolic characters",
          "thorough": "prefix 0..2 bytes; integers: every v >= 0; strings of 0..6 code points; writers holding 66,000 bytes; strings of 33..520 characters"}
OUTSIDE = "negative integers (excluded by the property); strings longer than the bound"
ASSUMPTIONS = []
NUM = ("byte", "char", "short", "three", "int")


def jobs(tier):
    Lmax = 4 if tier == "quick" else 6
    js = []
    for npre in (0, 2):
        for k in NUM:
            js.append(dict(name=f"number[{k},pre={npre}]", fn="number", args=[k, npre], collect_models=3,
                           expect=[k + ": ValueError exactly when the value is at or above the limit", k + ": emitted bytes equal the reference image"]))
        for n in range(0, 4):
            js.append(dict(name=f"raw_bytes[{n},pre={npre}]", fn="raw_bytes", args=[n, npre], collect_models=1))
    for L in range(0, Lmax + 1):
        for npre in ((0, 1) if L <= 2 else (1,)):
            for kind in ("string", "encoded_string"):
                js.append(dict(name=f"{kind}[L={L},pre={npre}]", fn="string", args=[kind, L, npre], collect_models=2,
                               expect=[kind + ": emitted bytes equal the reference image"]))
            for kind in ("fixed_string", "fixed_encoded_string"):
                js.append(dict(name=f"{kind}[L={L},pre={npre}]", fn="fixed", args=[kind, L, npre, 0, L + 3], collect_models=2,
                               expect=[kind + ": ValueError exactly when the length relation is violated", kind + ": emitted bytes equal the reference image"]))
                if L <= 2 and npre == (0 if L <= 2 else 1):
                    # padding across the one-byte boundary (254..258 bytes of padding)
                    js.append(dict(name=f"{kind}[L={L},pre={npre},long-padding]", fn="fixed", args=[kind, L, npre, L + 254, L + 258], collect_models=1,
                                   expect=[kind + ": emitted bytes equal the reference image"]))
        js.append(dict(name=f"defaults[L={L}]", fn="defaults", args=[L], collect_models=1))
        js.append(dict(name=f"toggling[L={L}]", fn="toggling", args=[L], collect_models=1))
    # the same steps on a writer with a past (earlier padded / plain / numeric / rejected writes, mode toggles)
    for k in NUM:
        js.append(dict(name=f"history+number[{k}]", fn="with_history", args=["number", k, 1], collect_models=1,
                       expect=[k + ": emitted bytes equal the reference image"]))
    for L in ((0, 1, 2) if tier == "quick" else (0, 1, 2, 3, 4)):
        for kind in ("string", "encoded_string"):
            js.append(dict(name=f"history+{kind}[L={L}]", fn="with_history", args=["string", kind, L, 1], collect_models=1,
                           expect=[kind + ": emitted bytes equal the reference image"]))
        for kind in ("fixed_string", "fixed_encoded_string"):
            js.append(dict(name=f"history+{kind}[L={L}]", fn="with_history", args=["fixed", kind, L, 1, 0, L + 5], collect_models=1,
                           expect=[kind + ": emitted bytes equal the reference image"]))
    js.append(dict(name="history+raw_bytes[2]", fn="with_history", args=["raw_bytes", 2, 1], collect_models=1))
    # size thresholds: a writer that already holds a lot (300 bytes; 66,000 in the thorough tier) and long strings
    for npre in ((300,) if tier == "quick" else (300, 66000)):
        for k in NUM:
            js.append(dict(name=f"number[{k},pre={npre}]", fn="number", args=[k, npre], collect_models=1,
                           expect=[k + ": emitted bytes equal the reference image"]))
        for kind in ("string", "encoded_string"):
            js.append(dict(name=f"{kind}[L=2,pre={npre}]", fn="string", args=[kind, 2, npre], collect_models=1,
                           expect=[kind + ": emitted bytes equal the reference image"]))
        for kind in ("fixed_string", "fixed_encoded_string"):
            js.append(dict(name=f"{kind}[L=2,pre={npre}]", fn="fixed", args=[kind, 2, npre, 0, 5], collect_models=1,
                           expect=[kind + ": emitted bytes equal the reference image"]))
    if tier == "quick":
        # one write beyond 255 bytes (one-byte size thresholds in helpers shared by all string writes)
        js.append(dict(name="string[L=260,pre=1]", fn="string", args=["string", 260, 1], collect_models=1,
                       expect=["string: emitted bytes equal the reference image"]))
    for L in ((66, 130) if tier == "quick" else (33, 66, 130, 260, 520)):
        for kind in ("string", "encoded_string"):
            js.append(dict(name=f"{kind}[L={L},pre=1]", fn="string", args=[kind, L, 1], collect_models=1,
                           expect=[kind + ": emitted bytes equal the reference image"]))
        for kind in ("fixed_string", "fixed_encoded_string"):
            js.append(dict(name=f"{kind}[L={L},pre=1]", fn="fixed", args=[kind, L, 1, L - 1, L + 2], collect_models=1,
                           expect=[kind + ": emitted bytes equal the reference image"]))
    return js
