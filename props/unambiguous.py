"""Conservative static classifier for C01's quantifier: is a unit of the (generated) corpus wire-unambiguous?

C01 ranges over specs where (i) unbounded items occur only at the end of a segment or chunk, (ii) no 0xFF-capable data
lies ahead of a chunked section, (iii) a dummy stands only in an otherwise empty body, (iv) optional fields are last.
Inside a chunked section 0xFF-capable data (raw bytes, padding, blobs) acts as a break, so it is excluded as well.

The classifier errs on the side of "ambiguous": a unit it accepts must round-trip; if it ever accepted an ambiguous
unit, C01 would raise an alarm on the unchanged tree at once (that is how it was validated: 0 alarms on the accepted set).
"""


def _types_info(types, t, memo):
    """-> dict(unbounded_end, ff_capable, has_chunk, variable) for a value of type t written outside sanitisation"""
    k = t[0]
    if k in ("int", "enum"):
        basic = t[1] if k == "int" else t[2]
        return {"unbounded": False, "ff": basic == "byte", "chunk": False}
    if k == "bool":
        return {"unbounded": False, "ff": t[1] == "byte", "chunk": False}
    if k == "blob":
        return {"unbounded": True, "ff": True, "chunk": False}
    if k == "str":
        return None     # depends on length / padding: handled by the caller
    name = t[1]
    if name not in memo:
        memo[name] = {"unbounded": True, "ff": True, "chunk": True}       # recursion guard
        memo[name] = _unit_info(types, types[name][1], memo)
    return memo[name]


def _unit_info(types, instrs, memo):
    """summary of a nested struct as seen from its parent"""
    flat = _flatten(instrs)
    ff = False
    chunk = False
    unbounded = False
    for ctx_chunk, ins in flat:
        if ins[0] == "chunked_marker":
            chunk = True
            continue
        inf = _instr_info(types, ins, memo)
        if inf is None:
            continue
        if inf["ff"] and not ctx_chunk:
            ff = True
        if inf["chunk"]:
            chunk = True
        unbounded = inf["unbounded"]        # only the last instruction's unboundedness leaks out
    return {"unbounded": unbounded, "ff": ff, "chunk": chunk}


def _flatten(instrs, in_chunk=False):
    out = []
    for ins in instrs:
        if ins[0] == "chunked":
            out.append((in_chunk, ("chunked_marker",)))
            out.extend(_flatten(ins[1], True))
        else:
            out.append((in_chunk, ins))
    return out


def _instr_info(types, ins, memo):
    k = ins[0]
    if k == "field":
        t = ins[2]
        if t[0] == "str":
            length, padded = ins[3], ins[4]
            return {"unbounded": length is None, "ff": True, "chunk": False, "padded": padded}
        inf = dict(_types_info(types, t, memo))
        inf["padded"] = False
        return inf
    if k == "array":
        t = ins[2]
        if t[0] == "str":
            e = {"unbounded": True, "ff": True, "chunk": False}
        else:
            e = _types_info(types, t, memo)
        return {"unbounded": ins[3] is None or e["unbounded"], "ff": e["ff"], "chunk": e["chunk"], "padded": False,
                "elem_unbounded": e["unbounded"], "delimited": ins[5]}
    if k == "length":
        return {"unbounded": False, "ff": ins[2] == "byte", "chunk": False, "padded": False}
    if k == "dummy":
        t = ins[1]
        if t[0] == "str":
            return {"unbounded": True, "ff": False, "chunk": False, "padded": False, "dummy": True}
        inf = dict(_types_info(types, t, memo))
        inf["dummy"] = True
        inf["padded"] = False
        return inf
    return None


def unambiguous(types, instrs, entry_chunk=False, memo=None, tail=True):
    """True only if the unit certainly round-trips for every valid value (conservative).
    tail: nothing is written after this unit (it is not followed by anything in its parent)"""
    memo = {} if memo is None else memo
    return _check(types, instrs, entry_chunk, memo, top=True, tail=tail)


def _check(types, instrs, in_chunk, memo, top, tail=True):
    n = len(instrs)
    seen_ff_outside = False          # 0xFF-capable data written so far outside any chunked section of this unit
    wrote_anything = False
    for idx, ins in enumerate(instrs):
        last = idx == n - 1
        k = ins[0]
        nxt = instrs[idx + 1] if not last else None
        ends_segment = last or (in_chunk and nxt is not None and nxt[0] == "break")
        if k == "break":
            continue
        if k == "chunked":
            if seen_ff_outside:
                return False                      # (ii)
            if not _check(types, ins[1], True, memo, False, tail and last):
                return False
            # what follows a chunked section is read non-chunked: the section must end bounded
            if not last and _ends_unbounded(types, ins[1], memo):
                return False
            wrote_anything = True
            continue
        if k == "switch":
            for c in ins[2]:
                if not _check(types, c[3], in_chunk, memo, False, tail and last):
                    return False
                if not last and _ends_unbounded(types, c[3], memo):
                    return False
                if not in_chunk and _has_chunk(types, c[3], memo) and seen_ff_outside:
                    return False
                if in_chunk and _has_ff_in_chunk(types, c[3], memo):
                    return False
                # a case body may end in optionals / dummies: anything after the switch would be mis-attributed
                if not last and _ends_optional_or_dummy(c[3]):
                    return False
            if not last and not any(c[0] == "default" for c in ins[2]) and False:
                return False
            wrote_anything = True
            if not in_chunk:
                for c in ins[2]:
                    if _has_ff_outside(types, c[3], memo):
                        seen_ff_outside = True
            continue
        inf = _instr_info(types, ins, memo)
        if inf is None:
            continue
        if inf.get("dummy"):
            if wrote_anything or not last:
                return False                      # (iii)
            continue
        optional = (k in ("field", "array", "length")) and (ins[5] if k == "field" else ins[4])
        if optional:
            # optional tails are fine when every later instruction of the segment is optional too (grammar) and the
            # optional value is bounded or last
            pass
        if inf["unbounded"] and not ends_segment:
            return False                          # (i)
        if k == "array" and inf.get("elem_unbounded") and not inf.get("delimited"):
            return False
        if k == "array" and ins[3] is None and not ends_segment:
            return False
        if k == "array" and ins[3] is None and ins[5] and not ins[6] and not (tail and last):
            # unbounded, separated without a trailing delimiter: the reader's unconditional next_chunk() after the last
            # element swallows a following <break/>, so whatever comes next is read as further elements
            return False
        if in_chunk:
            # inside a chunk every 0xFF is a break: raw bytes, padding and blobs are excluded; strings are sanitised
            if k in ("field", "array", "length", "dummy"):
                t = ins[2] if k in ("field", "array") else None
                if k == "length" and ins[2] == "byte":
                    return False
                if t is not None:
                    if t[0] in ("int", "enum") and (t[1] if t[0] == "int" else t[2]) == "byte":
                        return False
                    if t[0] == "bool" and t[1] == "byte":
                        return False
                    if t[0] == "blob":
                        return False
                    if t[0] == "str" and inf.get("padded"):
                        return False
                    if t[0] == "struct":
                        si = _types_info(types, t, memo)
                        if si["ff"]:
                            return False          # nested struct writes 0xFF-capable data that is not sanitised away
                        if not unambiguous(types, types[t[1]][1], True, memo, tail and last and k == "field"):
                            return False
        else:
            if k in ("field", "array") and ins[2][0] == "struct":
                si = _types_info(types, ins[2], memo)
                if si["chunk"] and seen_ff_outside:
                    return False                  # (ii) through a nested struct
                if not unambiguous(types, types[ins[2][1]][1], False, memo, tail and last and k == "field"):
                    return False
                if si["unbounded"] and not last:
                    return False
            if inf["ff"]:
                seen_ff_outside = True
        if k == "array" and ins[5] and ins[3] is None and ins[2][0] == "struct":
            pass
        wrote_anything = True
    return True


def _ends_unbounded(types, instrs, memo):
    body = [i for i in instrs if i[0] != "break"]
    if not body:
        return False
    last = body[-1]
    if last[0] == "chunked":
        return _ends_unbounded(types, last[1], memo)
    if last[0] == "switch":
        return any(_ends_unbounded(types, c[3], memo) for c in last[2])
    inf = _instr_info(types, last, memo)
    return bool(inf and inf["unbounded"])


def _ends_optional_or_dummy(instrs):
    body = [i for i in instrs if i[0] != "break"]
    if not body:
        return False
    last = body[-1]
    if last[0] == "dummy":
        return True
    if last[0] == "field":
        return bool(last[5])
    if last[0] in ("array", "length"):
        return bool(last[4])
    if last[0] == "chunked":
        return _ends_optional_or_dummy(last[1])
    if last[0] == "switch":
        return any(_ends_optional_or_dummy(c[3]) for c in last[2])
    return False


def _has_chunk(types, instrs, memo):
    for i in instrs:
        if i[0] == "chunked":
            return True
        if i[0] == "switch" and any(_has_chunk(types, c[3], memo) for c in i[2]):
            return True
        if i[0] in ("field", "array") and i[2][0] == "struct" and _types_info(types, i[2], memo)["chunk"]:
            return True
    return False


def _has_ff_outside(types, instrs, memo):
    for i in instrs:
        if i[0] in ("chunked", "break"):
            continue
        if i[0] == "switch":
            if any(_has_ff_outside(types, c[3], memo) for c in i[2]):
                return True
            continue
        inf = _instr_info(types, i, memo)
        if inf and inf["ff"]:
            return True
    return False


def _has_ff_in_chunk(types, instrs, memo):
    for i in instrs:
        if i[0] == "break":
            continue
        if i[0] == "chunked":
            if _has_ff_in_chunk(types, i[1], memo):
                return True
            continue
        if i[0] == "switch":
            if any(_has_ff_in_chunk(types, c[3], memo) for c in i[2]):
                return True
            continue
        if i[0] == "length" and i[2] == "byte":
            return True
        if i[0] in ("field", "array"):
            t = i[2]
            if t[0] in ("int", "enum") and (t[1] if t[0] == "int" else t[2]) == "byte":
                return True
            if t[0] == "blob" or (t[0] == "str" and i[0] == "field" and i[4]):
                return True
            if t[0] == "struct" and _types_info(types, t, memo)["ff"]:
                return True
    return False
