ID = "C07"
LEVEL = "model_checking"
HARNESS = "harness/c07_number.py"
MODE = "src"
CROSSHAIR = ["crosshair/c07_contracts.py"]       # second engine, thorough tier
EXPLANATION = ("SMT decision over the whole documented integer domain (symbolic n in [0,253^4)) and over all byte "
               "strings of each length up to the bound; no sampling.")
BOUNDS = {
    "quick": "encode side: all 253^4 integers (unbounded within the documented range); decode side: every byte string of length 0..6; all of it again after earlier calls (earlier inputs of every length 0..5, an earlier call that failed)",
    "thorough": "encode side: all 253^4 integers; decode side: every byte string of length 0..10; two-variable injectivity over the full range; after earlier calls as in quick",
}
OUTSIDE = "integers outside [0, 253^4); byte strings longer than the bound (bytes past the fourth are shown never to be read for lengths up to the bound)"
ASSUMPTIONS = ["Python ints modelled as mathematical integers (exact)"]


def jobs(tier):
    return [dict(j, second_solver=(40 if tier == "thorough" else 0)) for j in _jobs(tier)]


def _jobs(tier):
    nmax = 6 if tier == "quick" else 10
    js = [dict(name="limits", fn="limits", args=[], collect_models=1),
          dict(name="roundtrip", fn="roundtrip", args=[], collect_models=4, expect=["decode(encode(n)) == n", "no 0x00/0xFF byte"]),
          dict(name="injective", fn="injective", args=[], collect_models=2, expect=["distinct numbers have distinct encodings"])]
    for k in (1, 2, 3, 4):
        js.append(dict(name=f"prefix[{k}]", fn="prefix", args=[k], collect_models=2, expect=["prefix decodes to n"]))
    for n in range(0, nmax + 1):
        js.append(dict(name=f"decode[{n}]", fn="decode_formula", args=[n], collect_models=3, expect=["decode equals the positional formula"]))
        js.append(dict(name=f"decode-bytearray[{n}]", fn="decode_accepts_mutable", args=[n], collect_models=1))
    for n in (0, 1, 2, 3, 4, 5):
        for n0 in (0, 1, 2, 3, 4, 5):
            js.append(dict(name=f"after_earlier_calls[{n0} then {n}]", fn="after_earlier_calls", args=[n, n0], collect_models=1,
                           expect=["after earlier calls: decode equals the positional formula"]))
    for n in range(4, nmax + 1):
        js.append(dict(name=f"tail[{n}]", fn="decode_ignores_tail", args=[n], collect_models=1))
    return js
