"""Corpus access shared by the generated-code properties."""
import json, os
from .oxml import Tree

HERE = os.path.dirname(os.path.dirname(os.path.abspath(__file__)))
CORE = os.path.join(HERE, "corpus", "core", "xml")
_cache = {}


def schema(xml_dir=CORE):
    if xml_dir not in _cache:
        _cache[xml_dir] = Tree(xml_dir).schema()
    return _cache[xml_dir]


def index():
    return json.load(open(os.path.join(HERE, "corpus", "index.json")))


def classes(tag=None):
    types, cls = schema()
    idx = index()
    out = []
    for c in cls:
        tags = idx.get(c["name"], {}).get("tags", ["roundtrip"])
        if tag is None or tag in tags:
            out.append(c)
    return types, out
