"""Corpus access shared by the generated-code properties."""
import json, os
from .oxml import Tree

HERE = os.path.dirname(os.path.dirname(os.path.abspath(__file__)))
CORE = os.path.join(HERE, "corpus", "core", "xml")
_cache = {}


def schema(xml_dir=CORE):
    if xml_dir not in _cache:
        _cache[xml_dir] = Tree(xml_dir).schema()
    return _cache[xml_dir]


def index():
    return json.load(open(os.path.join(HERE, "corpus", "index.json")))


def classes(tag=None):
    types, cls = schema()
    idx = index()
    out = []
    for c in cls:
        tags = idx.get(c["name"], {}).get("tags", ["roundtrip"])
        if tag is None or tag in tags:
            out.append(c)
    return types, out


# ---------------------------------------------------------------- isolated mini trees
_minis = {}


def mini(struct_names):
    """A spec tree holding ONLY the named core structs and the types they reach (plus the packet enums the generator
    insists on), in their core order.  Generating a class in isolation exposes order effects inside the generator
    (caches, scopes) that the big trees hide: there some other class has usually touched the same types first.
    -> (xml_dir, types, classes)"""
    import atexit, shutil, tempfile
    import xml.etree.ElementTree as ET
    key = tuple(struct_names)
    if key in _minis:
        return _minis[key]
    types, cls = schema()
    by = {c["name"]: c for c in cls}
    need = {}
    for n in struct_names:
        need[n] = True
        for t in closure(types, by[n]["instrs"]):
            need[t] = True
    out = tempfile.mkdtemp(prefix="vsx-mini-")
    atexit.register(shutil.rmtree, out, True)
    for rel in (".", "map", "net", "net/client", "net/server", "pub", "pub/server"):
        os.makedirs(os.path.join(out, rel), exist_ok=True)
        open(os.path.join(out, rel, "protocol.xml"), "w").write("<protocol></protocol>\n")
    body = []
    have_packet_enums = set()
    for root_, _, files in sorted(os.walk(CORE)):
        if "protocol.xml" not in files:
            continue
        doc = ET.parse(os.path.join(root_, "protocol.xml")).getroot()
        for el in doc:
            nm = el.get("name")
            if el.tag == "enum" and nm in ("PacketFamily", "PacketAction"):
                if nm not in have_packet_enums:
                    have_packet_enums.add(nm)
                    body.insert(0, ET.tostring(el, encoding="unicode"))
            elif el.tag in ("enum", "struct") and nm in need:
                body.append(ET.tostring(el, encoding="unicode"))
    open(os.path.join(out, "net", "protocol.xml"), "w").write("<protocol>\n" + "\n".join(body) + "\n</protocol>\n")
    mtypes, mcls = Tree(out).schema()
    _minis[key] = (out, mtypes, [c for c in mcls if c["name"].split(".")[0] in struct_names])
    return _minis[key]


# ---------------------------------------------------------------- generated pair corpus
from . import paircorpus
_pairs = {}


def pairs(tier, seed, sample=None, with_singles=True, layout="A"):
    """-> (xml_dir, types, classes) of the mechanically generated pair corpus for this run"""
    key = (tier, seed, sample, with_singles, layout)
    if key not in _pairs:
        specs = paircorpus.select(tier, seed, sample, with_singles)
        d = paircorpus.make(specs, layout)
        types, cls = Tree(d).schema()
        _pairs[key] = (d, types, cls)
    return _pairs[key]


def closure(types, instrs, acc=None):
    """the part of the type table a class actually references (job arguments stay small)"""
    acc = {} if acc is None else acc

    def visit_type(t):
        if t[0] == "enum" and t[1] not in acc:
            acc[t[1]] = types[t[1]]
        elif t[0] == "struct" and t[1] not in acc:
            acc[t[1]] = types[t[1]]
            closure(types, types[t[1]][1], acc)

    for ins in instrs:
        if ins[0] == "field":
            visit_type(ins[2])
        elif ins[0] == "array":
            visit_type(ins[2])
        elif ins[0] == "dummy":
            visit_type(ins[1])
        elif ins[0] == "chunked":
            closure(types, ins[1], acc)
        elif ins[0] == "switch":
            for c in ins[2]:
                closure(types, c[3], acc)
    return acc


def seed():
    import os
    try:
        return int(os.environ.get("VERIF_SEED", "0") or 0)
    except ValueError:
        return 0


# ---------------------------------------------------------------- structure-count estimate (sizes the thorough tier)
def structures(types, instrs, cfg):
    """upper estimate of the number of value-forked structures of a unit under cfg (lens / counts options)"""
    nl, cs = len(cfg["lens"]), cfg["counts"]

    def of_type(t, length, padded):
        if t[0] == "str":
            if length is None:
                return nl
            if length[0] == "const":
                return min(nl, length[1] + 1) if padded else 1
            return nl
        if t[0] == "blob":
            return nl
        if t[0] == "struct":
            return structures(types, types[t[1]][1], cfg)
        return 1

    total = 1
    for ins in instrs:
        k = ins[0]
        if k == "field" and ins[1] is not None and ins[6] is None:
            n = of_type(ins[2], ins[3], ins[4])
            total *= (n + 1) if ins[5] else n
        elif k == "array":
            e = of_type(ins[2], None, False)
            if ins[3] is not None and ins[3][0] == "const":
                n = e ** ins[3][1]
            else:
                n = sum(e ** c for c in cs)
            total *= (n + 1) if ins[4] else n
        elif k == "chunked":
            total *= structures(types, ins[1], cfg)
        elif k == "switch":
            total *= sum(structures(types, c[3], cfg) for c in ins[2]) + 1
    return total


def choose_cfg(types, instrs, candidates, budget):
    """the richest candidate configuration whose structure estimate stays within the budget"""
    best = candidates[0]
    for c in candidates:
        if structures(types, instrs, c) <= budget:
            best = c
    return best


def calls_bound(types, instrs, maxcount):
    """upper bound on the number of public reader/writer method calls one (de)serialization of a unit makes
    (string writes count twice: add_string delegates to the overridable add_bytes)"""
    def of_type(t):
        if t[0] == "struct":
            return calls_bound(types, types[t[1]][1], maxcount)
        if t[0] in ("str", "blob"):
            return 2
        return 1
    total = 0
    for ins in instrs:
        k = ins[0]
        if k == "field":
            total += of_type(ins[2])
        elif k == "length":
            total += 1
        elif k == "array":
            n = ins[3][1] if (ins[3] is not None and ins[3][0] == "const") else maxcount
            total += n * (of_type(ins[2]) + (1 if ins[5] else 0))
        elif k == "dummy":
            total += of_type(ins[1])
        elif k == "break":
            total += 1
        elif k == "chunked":
            total += calls_bound(types, ins[1], maxcount)
        elif k == "switch":
            total += max([calls_bound(types, c[3], maxcount) for c in ins[2]] + [0])
    return total
