"""O-xml, host side: an independent reading of the corpus XML (ElementTree, xs:boolean parsed properly) into
plain JSON-able schema tuples that the harness-level reference semantics (harness/vh_refsem.py) interprets.

Nothing here imports the repository's generator.

type descriptors   ["int", basic] | ["bool", basic] | ["enum", Name, basic] | ["str", "string"|"encoded_string"]
                   | ["blob"] | ["struct", Name]
length spec        None | ["const", n] | ["ref", field]
instructions       ["field", name|None, type, length, padded, optional, hardcoded|None]
                   ["array", name, type, length, optional, delimited, trailing]
                   ["length", name, basic, offset, optional]
                   ["dummy", type, hardcoded]
                   ["switch", field, [[ "value"|"default", ordinal|None, case_class_suffix, instrs ] ...]]
                   ["chunked", instrs]
                   ["break"]
"""
import os
import xml.etree.ElementTree as ET

BASIC_INT = {"byte": 1, "char": 1, "short": 2, "three": 3, "int": 4}
INSTR_TAGS = ("field", "array", "length", "dummy", "switch", "chunked", "break")


def xs_bool(text, default=False):
    if text is None:
        return default
    t = text.strip()
    if t in ("true", "1"):
        return True
    if t in ("false", "0"):
        return False
    raise ValueError(f"not an xs:boolean: {text!r}")


def snake(name):
    out = ""
    for i, c in enumerate(name):
        if i > 0 and c.isupper() and ((i + 1 < len(name) and not name[i + 1].isupper()) or name[i - 1].islower()):
            out += "_"
        out += c.lower()
    return out


def pascal(name):
    return "".join(p[:1].upper() + p[1:].lower() for p in name.split("_"))


def text_of(el):
    t = (el.text or "").strip()
    for ch in el:
        tail = (ch.tail or "").strip()
        if tail and not t:
            t = tail
    return t or None


class Tree:
    def __init__(self, xml_dir):
        self.xml_dir = xml_dir
        self.enums = {}
        self.structs = {}
        self.packets = []
        self._load()

    def _load(self):
        files = []
        for root, _, fs in os.walk(self.xml_dir):
            if "protocol.xml" in fs:
                files.append(os.path.join(root, "protocol.xml"))
        raw_structs = {}
        raw_packets = []
        for path in sorted(files):
            rel = os.path.dirname(os.path.relpath(path, self.xml_dir)).replace(os.sep, "/")
            pkg = "eolib.protocol._generated" + ("." + rel.replace("/", ".") if rel else "")
            doc = ET.parse(path).getroot()
            for e in doc.findall("enum"):
                vals = []
                for v in e.findall("value"):
                    nm = v.get("name")
                    vals.append([nm, int(text_of(v)), nm + "_" if nm == "None" else nm])
                self.enums[e.get("name")] = {"basic": e.get("type"), "values": vals, "module": pkg + "." + snake(e.get("name"))}
            for s in doc.findall("struct"):
                raw_structs[s.get("name")] = (s, pkg)
            for p in doc.findall("packet"):
                raw_packets.append((p, pkg, rel))
        self._raw_structs = raw_structs
        for name, (el, pkg) in raw_structs.items():
            self.structs[name] = {"instrs": self._instrs(el), "module": pkg + "." + snake(name)}
        for el, pkg, rel in raw_packets:
            suffix = {"net/client": "ClientPacket", "net/server": "ServerPacket"}[rel]
            cname = el.get("family") + el.get("action") + suffix
            fam = dict((v[0], v[1]) for v in self.enums["PacketFamily"]["values"])[el.get("family")]
            act = dict((v[0], v[1]) for v in self.enums["PacketAction"]["values"])[el.get("action")]
            self.packets.append({"name": cname, "instrs": self._instrs(el), "module": pkg + "." + snake(cname), "family": fam, "action": act})

    # ---- types
    def type_desc(self, t):
        parts = t.split(":")
        base = parts[0]
        over = parts[1] if len(parts) == 2 else None
        if base in BASIC_INT:
            return ["int", base]
        if base == "bool":
            return ["bool", over or "char"]
        if base in ("string", "encoded_string"):
            return ["str", base]
        if base == "blob":
            return ["blob"]
        if base in self.enums:
            return ["enum", base, over or self.enums[base]["basic"]]
        if base in self._raw_structs:
            return ["struct", base]
        raise ValueError(f"unknown type {t}")

    def length_spec(self, s):
        if s is None:
            return None
        return ["const", int(s)] if s.isdigit() else ["ref", s]

    def _instrs(self, el):
        out = []
        for ch in el:
            if ch.tag not in INSTR_TAGS:
                continue
            if ch.tag == "field":
                out.append(["field", ch.get("name"), self.type_desc(ch.get("type")), self.length_spec(ch.get("length")),
                            xs_bool(ch.get("padded")), xs_bool(ch.get("optional")), text_of(ch)])
            elif ch.tag == "array":
                out.append(["array", ch.get("name"), self.type_desc(ch.get("type")), self.length_spec(ch.get("length")),
                            xs_bool(ch.get("optional")), xs_bool(ch.get("delimited")), xs_bool(ch.get("trailing-delimiter"), True)])
            elif ch.tag == "length":
                out.append(["length", ch.get("name"), ch.get("type"), int(ch.get("offset", "0")), xs_bool(ch.get("optional"))])
            elif ch.tag == "dummy":
                out.append(["dummy", self.type_desc(ch.get("type")), text_of(ch)])
            elif ch.tag == "chunked":
                out.append(["chunked", self._instrs(ch)])
            elif ch.tag == "break":
                out.append(["break"])
            elif ch.tag == "switch":
                fld = ch.get("field")
                cases = []
                for c in ch.findall("case"):
                    if xs_bool(c.get("default")):
                        cases.append(["default", None, "Default", self._instrs(c)])
                    else:
                        cases.append(["value", c.get("value"), c.get("value"), self._instrs(c)])
                out.append(["switch", fld, cases])
        return out

    def resolve_switches(self, instrs, scope=None):
        """replace case value names by ordinals; scope maps field names to their type descriptors.
        A <chunked> shares its parent's scope; every case body opens a fresh one."""
        if scope is None:
            scope = {}
        for ins in instrs:
            if ins[0] == "field" and ins[1] is not None:
                scope[ins[1]] = ins[2]
            elif ins[0] == "length":
                scope[ins[1]] = ["int", ins[2]]
            elif ins[0] == "chunked":
                self.resolve_switches(ins[1], scope)
            elif ins[0] == "switch":
                ft = scope[ins[1]]
                for c in ins[2]:
                    if c[0] == "value" and not isinstance(c[1], int):
                        if c[1].isdigit():
                            c[1] = int(c[1])
                        else:
                            c[1] = dict((v[0], v[1]) for v in self.enums[ft[1]]["values"])[c[1]]
                    self.resolve_switches(c[3], {})
        return instrs

    # ---- static calculators (own reading of the eo-protocol rules)
    def fixed_size(self, t, length=None):
        k = t[0]
        if k == "int":
            return BASIC_INT[t[1]]
        if k == "bool":
            return BASIC_INT[t[1]]
        if k == "enum":
            return BASIC_INT[t[2]]
        if k == "str":
            return length[1] if (length is not None and length[0] == "const") else None
        if k == "blob":
            return None
        return self.struct_fixed_size(t[1])

    def struct_fixed_size(self, name):
        total = 0
        for ins in self.flat(self.structs[name]["instrs"]):
            tag = ins[0]
            if tag == "field":
                if ins[5]:
                    return None
                s = self.fixed_size(ins[2], ins[3])
            elif tag == "array":
                if ins[4] or ins[5] or ins[3] is None or ins[3][0] != "const":
                    return None
                es = self.fixed_size(ins[2])
                s = None if es is None else es * ins[3][1]
            elif tag == "dummy":
                s = self.fixed_size(ins[1])
            elif tag in ("chunked", "switch"):
                return None
            else:
                s = 0
            if s is None:
                return None
            total += s
        return total

    def flat(self, instrs):
        out = []
        for ins in instrs:
            out.append(ins)
            if ins[0] == "chunked":
                out.extend(self.flat(ins[1]))
            elif ins[0] == "switch":
                for c in ins[2]:
                    out.extend(self.flat(c[3]))
        return out

    def schema(self):
        """JSON-able schema for the harness."""
        for s in self.structs.values():
            self.resolve_switches(s["instrs"])
        for p in self.packets:
            self.resolve_switches(p["instrs"])
        types = {}
        for n, e in self.enums.items():
            types[n] = ["enum", e["basic"], [[v[0], v[1], v[2]] for v in e["values"]], e["module"]]
        for n, s in self.structs.items():
            types[n] = ["struct", s["instrs"], s["module"], self.struct_fixed_size(n)]
        classes = []
        for n, s in self.structs.items():
            classes.append({"name": n, "module": s["module"], "instrs": s["instrs"], "packet": None, "case": False, "entry": False})
        for p in self.packets:
            classes.append({"name": p["name"], "module": p["module"], "instrs": p["instrs"], "packet": [p["family"], p["action"]], "case": False, "entry": False})
        # case-data classes are generated classes with a public serialize/deserialize of their own
        for c in list(classes):
            self._case_classes(c["name"], c["module"], c["instrs"], classes, False)
        return types, classes

    def _case_classes(self, owner, module, instrs, out, in_chunk):
        """entry = the case body is generated inside a chunked section, so the class is only ever entered in chunked /
        sanitising mode (its <break> instructions rely on it)"""
        for ins in instrs:
            if ins[0] == "chunked":
                self._case_classes(owner, module, ins[1], out, True)
            elif ins[0] == "switch":
                for c in ins[2]:
                    if len(c[3]) > 0:
                        qual = owner + "." + pascal(ins[1]) + "Data" + c[2]
                        out.append({"name": qual, "module": module, "instrs": c[3], "packet": None, "case": True, "entry": in_chunk})
                        self._case_classes(qual, module, c[3], out, in_chunk)
