from . import corpus, paircorpus
ID = "C03"
LEVEL = "model_checking"
HARNESS = "harness/c03_hostile.py"
MODE = "corpus"
EXPLANATION = ("For each corpus class and each length n, ALL 256^n byte strings are one symbolic input to the generated deserializer (real EoReader); the result is compared field by field "
               "with O-xml's reading rules executed over the independent O-reader model. This subsumes prefixes, substitutions, insertions and junk. Loops get an unwinding bound; none is hit.")
BOUNDS = {"quick": "every class of corpus/core (and, for lengths 0..3, a VERIF_SEED-chosen sample of 160 pairs + all singles of the generated pair corpus) x every byte string of length 0..4, entry mode non-chunked (and chunked for structs); element counts decoded from the data explored up to 6",
          "thorough": "every class of corpus/core and (lengths 0..4) " + paircorpus.size_text() + " x every byte string of length 0..6 (0..7 for classes without unbounded loops), both entry modes"}
OUTSIDE = "specifications not in the corpus; longer inputs"
ASSUMPTIONS = ["O-xml reading rules (harness/vh_refsem.py) over the O-reader model (harness/vh_reader_model.py)"]


def trees(tier):
    return [("core", corpus.CORE), ("pairs", corpus.pairs(tier, corpus.seed())[0])]


def programs(tier):
    return len(corpus.classes()[1]) + len(corpus.pairs(tier, corpus.seed())[2])


def jobs(tier):
    types, cls = corpus.classes()
    nmax = 4 if tier == "quick" else 6
    cap = 6 if tier == "quick" else 24
    js = []
    for c in cls:
        for n in range(0, nmax + 1):
            modes = (False,) if (tier == "quick" and (c["packet"] is not None or n > 3)) else (False, True)
            if c["entry"]:
                modes = (True,)
            for m in modes:
                js.append(dict(name=f"hostile[{c['name']},n={n},chunked={int(m)}]", fn="hostile", args=[corpus.closure(types, c["instrs"]), c, n, m, cap], tree="core",
                               collect_models=1, expect=["reader mode restored"], value_cap=700))
    _, ptypes, pcls = corpus.pairs(tier, corpus.seed())
    for c in pcls:
        for n in range(0, (3 if tier == "quick" else 4) + 1):
            js.append(dict(name=f"hostile[pairs:{c['name']},n={n}]", fn="hostile", args=[corpus.closure(ptypes, c["instrs"]), c, n, c["entry"], cap], tree="pairs",
                           collect_models=1, expect=["reader mode restored"], value_cap=700))
    return js
